// gosym: symbolic execution of go/ssa with a merged-configuration scheduler.
package main

import (
	"encoding/json"
	"flag"
	"fmt"
	"os"
	"path/filepath"
	"runtime/debug"
	"runtime/pprof"
	"strconv"
	"strings"
	"time"

	"golang.org/x/tools/go/ssa"

	"gosym/smt"
	"gosym/sym"
)

func main() {
	debug.SetGCPercent(800)
	debug.SetMemoryLimit(20 << 30) // collect harder when the heap approaches 20 GiB
	if len(os.Args) < 2 {
		fmt.Fprintln(os.Stderr, "usage: gosym run|list [flags]")
		os.Exit(2)
	}
	switch os.Args[1] {
	case "run":
		run(os.Args[2:])
	case "instrument":
		instrument(os.Args[2:])
	default:
		fmt.Fprintln(os.Stderr, "unknown command", os.Args[1])
		os.Exit(2)
	}
}

type multi []string

func (m *multi) String() string     { return strings.Join(*m, ",") }
func (m *multi) Set(s string) error { *m = append(*m, s); return nil }

func run(args []string) {
	fs := flag.NewFlagSet("run", flag.ExitOnError)
	repo := fs.String("repo", "/repo", "repository root")
	verif := fs.String("verif", "/verif", "verification root (vrt, models)")
	var hdirs multi
	fs.Var(&hdirs, "harness-dir", "directory with harness files (repeatable)")
	var pats multi
	fs.Var(&pats, "pkg", "package pattern to load (repeatable)")
	only := fs.String("harness", "", "comma-separated harness function names (default: all)")
	solver := fs.String("solver", "cvc5", "z3 | z3-new | cvc5")
	timeout := fs.Int("qtimeout", 60000, "per-query timeout (ms)")
	budget := fs.Duration("budget", 0, "wall-time budget per harness (0 = none)")
	out := fs.String("out", "", "write JSON results to this file")
	trace := fs.Bool("trace", false, "trace executed instructions")
	mergefull := fs.Bool("merge", false, "merge differing states at equal configurations under fresh selector variables (symbolic schedule)")
	races := fs.String("races", "refine", "data races: refine (promote racy accesses to scheduling points and re-run) | violation | ignore")
	nolm := fs.Bool("no-release-merge", false, "keep a scheduling point before Unlock/RUnlock/WaitGroup.Add (disable the left-mover reduction)")
	workers := fs.Int("workers", 4, "goroutines expanding one rank level of the configuration graph in parallel")
	nomerge := fs.Bool("nomerge", false, "do not merge states (debugging)")
	nofeas := fs.Bool("nofeas", false, "skip feasibility checks at forks")
	unwind := fs.Int("unwind", 300, "loop unwinding bound per frame")
	maxenum := fs.Int("maxenum", 16, "how many values of a symbolic index / size are enumerated (case split) before giving up")
	timed := fs.Bool("timed", false, "timed semantics: computation takes no time, timers fire exactly when due, earliest first")
	boundsFlag := fs.String("bounds", "", "harness size parameters k=v,k=v overriding the vrt.Bound defaults")
	progress := fs.Bool("progress", false, "print progress lines")
	cpuprof := fs.String("cpuprofile", "", "write CPU profile")
	smtlog := fs.String("smtlog", "", "log solver dialogue to file")
	fs.Parse(args)
	if *cpuprof != "" {
		f, _ := os.Create(*cpuprof)
		pprof.StartCPUProfile(f)
		go func() { time.Sleep(20 * time.Second); pprof.StopCPUProfile(); f.Close() }()
	}

	ov := &sym.Overlay{Repo: *repo, Files: map[string][]byte{}, Source: map[string]string{}}
	for _, d := range append([]string{filepath.Join(*verif, "vrt/common"), filepath.Join(*verif, "vrt/sym"), filepath.Join(*verif, "models")}, hdirs...) {
		if err := ov.AddDir(d); err != nil {
			fatal(err)
		}
	}
	if len(pats) == 0 {
		pats = multi{"./message/...", "./pubsub/...", "./components/...", "./zzverif/..."}
	}
	t0 := time.Now()
	l, err := sym.Load(ov, pats)
	if err != nil {
		fatal(err)
	}
	loadSecs := time.Since(t0).Seconds()
	hs := sym.Harnesses(l, ov)
	want := map[string]bool{}
	for _, n := range strings.Split(*only, ",") {
		if n != "" {
			want[n] = true
		}
	}
	var results []*sym.HarnessResult
	for _, h := range hs {
		if len(want) > 0 && !want[h.Name()] {
			continue
		}
		var r *sym.HarnessResult
		promoted := map[ssa.Instruction]bool{}
		racesSeen := map[string]string{}
		rounds := 0
		for {
			s, err := smt.New(*solver, *timeout, *smtlog)
			if err != nil {
				fatal(err)
			}
			e := sym.NewEngine(l.Prog, s)
			if err := e.Install(l); err != nil {
				fatal(err)
			}
			e.RaceCheck = *races != "ignore"
			e.RaceIsViolation = *races == "violation"
			e.Promote(promoted)
			e.TraceExec = *trace
			e.NoMerge = *nomerge
		e.Workers = *workers
		e.MergeReleases = !*nolm
			e.MergeFull = *mergefull
			e.FeasCheck = !*nofeas
			e.Unwind = *unwind
			e.Timed = *timed
			e.MaxEnum = *maxenum
			e.Bounds = map[string]int{}
			for _, kv := range strings.Split(*boundsFlag, ",") {
				if k, v, ok := strings.Cut(kv, "="); ok {
					n, err := strconv.Atoi(v)
					if err != nil {
						fmt.Fprintln(os.Stderr, "bad --bounds entry", kv)
						os.Exit(3)
					}
					e.Bounds[k] = n
				}
			}
			e.WitnessWanted = true
			e.Progress = *progress
		e.RepoRoot = strings.TrimRight(*repo, "/")
			if *budget > 0 {
				e.Deadline = time.Now().Add(*budget)
			}
			r = e.RunHarness(h)
			s.Close()
			for k, v := range e.Races {
				racesSeen[k] = v
			}
			newRace := false
			for in := range e.RaceInstrs {
				if !promoted[in] {
					promoted[in] = true
					newRace = true
				}
			}
			rounds++
			if *races != "refine" || !newRace || rounds >= 4 || len(r.Violations) > 0 {
				break
			}
			fmt.Fprintf(os.Stderr, "%s: %d racy accesses promoted to scheduling points, re-running (round %d)\n", h.Name(), len(promoted), rounds+1)
		}
		r.Races = racesSeen
		r.RefineRounds = rounds
		results = append(results, r)
		fmt.Fprintf(os.Stderr, "%-50s %-12s configs=%d trans=%d merges=%d sel=%d paths=%d queries=%d (%.2fs solver) wall=%.2fs\n",
			h.Name(), r.Verdict, r.Stats.Configs, r.Stats.Transitions, r.Stats.Merges, r.Stats.Selectors, r.Stats.Completed, r.Queries, r.SolverSecs, r.WallSecs)
		for _, v := range r.Violations {
			fmt.Fprintf(os.Stderr, "   VIOLATION %s: %s  model=%v\n", v.Kind, v.Label, v.Model)
			for _, s := range v.Trace {
				fmt.Fprintf(os.Stderr, "      %s\n", s)
			}
		}
		for _, s := range r.Inconclusive {
			fmt.Fprintf(os.Stderr, "   INCONCLUSIVE %s\n", s)
		}
	}
	doc := map[string]interface{}{"load_s": loadSecs, "results": results}
	b, _ := json.MarshalIndent(doc, "", " ")
	if *out != "" {
		if err := os.WriteFile(*out, b, 0o644); err != nil {
			fatal(err)
		}
	} else {
		os.Stdout.Write(b)
	}
}

func fatal(err error) {
	fmt.Fprintln(os.Stderr, "gosym:", err)
	os.Exit(3)
}

// instrument: gosym instrument --repo R --out DIR --virt rel=real,... --sites a.go:12,b.go:7 -> JSON {rel: instrumented file}
func instrument(args []string) {
	fs := flag.NewFlagSet("instrument", flag.ExitOnError)
	repo := fs.String("repo", "/repo", "repository root")
	out := fs.String("out", "", "output directory")
	virt := fs.String("virt", "", "overlay files: rel=real,rel=real")
	sites := fs.String("sites", "", "comma-separated file:line positions")
	fs.Parse(args)
	vm := map[string]string{}
	for _, kv := range strings.Split(*virt, ",") {
		if i := strings.Index(kv, "="); i > 0 {
			vm[kv[:i]] = kv[i+1:]
		}
	}
	res, err := sym.InstrumentSites(*repo, vm, strings.Split(*sites, ","), *out)
	if err != nil {
		fatal(err)
	}
	b, _ := json.Marshal(res)
	os.Stdout.Write(b)
}
