// Package smt drives one long-lived SMT solver process (z3 -in, or cvc5
// --incremental). Term definitions are sent once (monotone); every query is a
// check-sat-assuming over names of already defined Boolean terms.
package smt

import (
	"bufio"
	"fmt"
	"io"
	"os"
	"os/exec"
	"strconv"
	"strings"
	"time"

	"gosym/term"
)

type Result int

const (
	Unknown Result = iota
	Sat
	Unsat
)

func (r Result) String() string { return [...]string{"unknown", "sat", "unsat"}[r] }

type Stats struct {
	Queries, Sat, Unsat, Unknown int
	Errors                       int
	Time                         time.Duration
	Defs                         int
}

type Solver struct {
	Name    string
	cmd     *exec.Cmd
	in      io.WriteCloser
	out     *bufio.Reader
	defined map[int]bool
	ufs     map[string]bool
	Stats   Stats
	log     io.Writer
	buf     strings.Builder
	LastErr string
	Macros  bool // use define-fun macros instead of named constants
	cache   map[string]Result
}

// New starts a solver. kind: "z3", "z3-new", "cvc5". timeoutMs is the per-query soft timeout.
func New(kind string, timeoutMs int, logPath string) (*Solver, error) {
	var cmd *exec.Cmd
	switch kind {
	case "z3", "z3-new":
		cmd = exec.Command(kind, "-in", "-smt2", fmt.Sprintf("-t:%d", timeoutMs))
	case "cvc5":
		cmd = exec.Command("cvc5", "--incremental", "--strings-exp", "--lang=smt2", "--produce-models",
			fmt.Sprintf("--tlimit-per=%d", timeoutMs))
	default:
		return nil, fmt.Errorf("unknown solver %q", kind)
	}
	in, err := cmd.StdinPipe()
	if err != nil {
		return nil, err
	}
	outp, err := cmd.StdoutPipe()
	if err != nil {
		return nil, err
	}
	cmd.Stderr = os.Stderr
	if err := cmd.Start(); err != nil {
		return nil, err
	}
	s := &Solver{Name: kind, cmd: cmd, in: in, out: bufio.NewReaderSize(outp, 1<<20),
		defined: map[int]bool{}, ufs: map[string]bool{}, cache: map[string]Result{}}
	if logPath != "" {
		f, err := os.Create(logPath)
		if err == nil {
			s.log = f
		}
	}
	if kind == "cvc5" {
		s.send("(set-logic ALL)")
	} else {
		s.send("(set-option :produce-models true)")
	}
	return s, nil
}

func (s *Solver) Close() {
	if s == nil || s.cmd == nil {
		return
	}
	s.in.Close()
	done := make(chan struct{})
	go func() { s.cmd.Wait(); close(done) }()
	select {
	case <-done:
	case <-time.After(2 * time.Second):
		s.cmd.Process.Kill()
	}
	if c, ok := s.log.(io.Closer); ok {
		c.Close()
	}
}

func (s *Solver) send(line string) {
	s.buf.WriteString(line)
	s.buf.WriteByte('\n')
}

func (s *Solver) flush() {
	if s.buf.Len() == 0 {
		return
	}
	str := s.buf.String()
	s.buf.Reset()
	if s.log != nil {
		io.WriteString(s.log, str)
	}
	io.WriteString(s.in, str)
}

// define makes sure t (and everything below it) is known to the solver.
func (s *Solver) define(t *term.Term) {
	if t.Op == term.OpConst {
		return
	}
	if s.defined[t.ID] {
		return
	}
	// iterative post-order to survive deep DAGs
	type fr struct {
		t *term.Term
		i int
	}
	stack := []fr{{t, 0}}
	for len(stack) > 0 {
		f := &stack[len(stack)-1]
		if f.t.Op == term.OpConst || s.defined[f.t.ID] {
			stack = stack[:len(stack)-1]
			continue
		}
		if f.i < len(f.t.Args) {
			a := f.t.Args[f.i]
			f.i++
			if a.Op != term.OpConst && !s.defined[a.ID] {
				stack = append(stack, fr{a, 0})
			}
			continue
		}
		x := f.t
		stack = stack[:len(stack)-1]
		s.defined[x.ID] = true
		s.Stats.Defs++
		switch x.Op {
		case term.OpVar:
			s.send(fmt.Sprintf("(declare-const %s %s)", x.Ref(), x.Sort.SMT()))
		case term.OpUF:
			if !s.ufs[x.S] {
				s.ufs[x.S] = true
				var as []string
				for _, a := range x.Args {
					as = append(as, a.Sort.SMT())
				}
				s.send(fmt.Sprintf("(declare-fun %s (%s) %s)", x.S, strings.Join(as, " "), x.Sort.SMT()))
			}
			s.defn(x)
		default:
			s.defn(x)
		}
	}
}

// defn introduces x as a named constant with a defining equation (a conservative extension; unlike
// define-fun macros it is never expanded, which keeps deep ite/selector DAGs linear for the solver).
func (s *Solver) defn(x *term.Term) {
	if s.Macros {
		s.send(fmt.Sprintf("(define-fun %s () %s %s)", x.Ref(), x.Sort.SMT(), x.Body()))
		return
	}
	s.send(fmt.Sprintf("(declare-const %s %s)", x.Ref(), x.Sort.SMT()))
	s.send(fmt.Sprintf("(assert (= %s %s))", x.Ref(), x.Body()))
}

// Assert adds a permanent assertion (axioms about uninterpreted functions).
func (s *Solver) Assert(t *term.Term) {
	s.define(t)
	s.send(fmt.Sprintf("(assert %s)", t.Ref()))
}

// Define makes t known to the solver (so that its value can be read from a later model).
func (s *Solver) Define(t *term.Term) { s.define(t) }

// MarkUF records that an uninterpreted function symbol was declared through Raw.
func (s *Solver) MarkUF(name string) { s.ufs[name] = true }

// Raw sends a raw command that produces no output (declarations, quantified axioms).
func (s *Solver) Raw(cmd string) { s.send(cmd) }

func (s *Solver) readAnswer() (Result, string) {
	var errs []string
	for {
		line, err := s.out.ReadString('\n')
		if err != nil {
			return Unknown, "solver died: " + err.Error() + " " + strings.Join(errs, ";")
		}
		line = strings.TrimSpace(line)
		if s.log != nil {
			fmt.Fprintf(s.log, "; <- %s\n", line)
		}
		switch {
		case line == "sat":
			if len(errs) > 0 {
				return Unknown, strings.Join(errs, ";")
			}
			return Sat, ""
		case line == "unsat":
			if len(errs) > 0 {
				return Unknown, strings.Join(errs, ";")
			}
			return Unsat, ""
		case line == "unknown" || line == "timeout":
			return Unknown, strings.Join(append(errs, line), ";")
		case strings.HasPrefix(line, "(error"):
			errs = append(errs, line)
			if strings.Contains(line, "check-sat") || s.Name == "cvc5" {
				// cvc5 aborts the command on error; no verdict will follow
				if s.Name == "cvc5" {
					return Unknown, strings.Join(errs, ";")
				}
			}
		case line == "":
		default:
			errs = append(errs, "unexpected: "+line)
		}
	}
}

// Check decides the conjunction of the given Boolean terms.
func (s *Solver) Check(conj ...*term.Term) Result { return s.check(false, conj...) }

// CheckModel is Check without the result cache, so that a model is available after Sat.
func (s *Solver) CheckModel(conj ...*term.Term) Result { return s.check(true, conj...) }

func (s *Solver) check(fresh bool, conj ...*term.Term) Result {
	c := term.And(conj...)
	if c == term.True && !fresh {
		return Sat
	}
	if c == term.False {
		return Unsat
	}
	key := strconv.Itoa(c.ID)
	if r, ok := s.cache[key]; ok && (!fresh || r != Sat) {
		return r
	}
	var lits []*term.Term
	if c == term.True {
		s.send("(check-sat)")
		s.flush()
		r, _ := s.readAnswer()
		s.Stats.Queries++
		return r
	}
	if c.Op == term.OpAnd {
		lits = c.Args
	} else {
		lits = []*term.Term{c}
	}
	var names []string
	for _, l := range lits {
		s.define(l)
		if l.Op == term.OpNot && l.Args[0].Op != term.OpConst {
			names = append(names, "(not "+l.Args[0].Ref()+")")
		} else {
			names = append(names, l.Ref())
		}
	}
	s.send("(check-sat-assuming (" + strings.Join(names, " ") + "))")
	t0 := time.Now()
	s.flush()
	r, msg := s.readAnswer()
	s.Stats.Time += time.Since(t0)
	s.Stats.Queries++
	switch r {
	case Sat:
		s.Stats.Sat++
	case Unsat:
		s.Stats.Unsat++
	default:
		s.Stats.Unknown++
		s.LastErr = msg
		if strings.Contains(msg, "(error") {
			s.Stats.Errors++
		}
	}
	if r != Unknown {
		s.cache[key] = r
	}
	return r
}

// Model returns constant values for the given variables after a Sat answer.
func (s *Solver) Model(vars []*term.Term) (map[*term.Term]*term.Term, error) {
	res := map[*term.Term]*term.Term{}
	const chunk = 200
	for i := 0; i < len(vars); i += chunk {
		j := i + chunk
		if j > len(vars) {
			j = len(vars)
		}
		var names []string
		for _, v := range vars[i:j] {
			s.define(v)
			names = append(names, v.Ref())
		}
		s.send("(get-value (" + strings.Join(names, " ") + "))")
		s.flush()
		txt, err := s.readSexp()
		if err != nil {
			return nil, err
		}
		sx, _, err := parseSexp(txt, 0)
		if err != nil {
			return nil, fmt.Errorf("get-value parse: %v in %q", err, txt)
		}
		if len(sx.list) != j-i {
			return nil, fmt.Errorf("get-value: expected %d values, got %d: %s", j-i, len(sx.list), txt)
		}
		for k, pair := range sx.list {
			v := vars[i+k]
			if len(pair.list) != 2 {
				return nil, fmt.Errorf("get-value: bad pair %s", txt)
			}
			c, err := valueOf(pair.list[1], v.Sort)
			if err != nil {
				return nil, fmt.Errorf("get-value %s: %v", v.Ref(), err)
			}
			res[v] = c
		}
	}
	return res, nil
}

func (s *Solver) readSexp() (string, error) {
	var sb strings.Builder
	depth := 0
	started := false
	inStr := false
	for {
		b, err := s.out.ReadByte()
		if err != nil {
			return "", err
		}
		sb.WriteByte(b)
		if inStr {
			if b == '"' {
				inStr = false
			}
			continue
		}
		switch b {
		case '"':
			inStr = true
		case '(':
			depth++
			started = true
		case ')':
			depth--
			if started && depth == 0 {
				if s.log != nil {
					fmt.Fprintf(s.log, "; <- %s\n", sb.String())
				}
				return sb.String(), nil
			}
		}
	}
}

type sexp struct {
	atom string
	list []*sexp
	isL  bool
}

func parseSexp(s string, i int) (*sexp, int, error) {
	for i < len(s) && (s[i] == ' ' || s[i] == '\n' || s[i] == '\t' || s[i] == '\r') {
		i++
	}
	if i >= len(s) {
		return nil, i, fmt.Errorf("eof")
	}
	if s[i] == '(' {
		i++
		n := &sexp{isL: true}
		for {
			for i < len(s) && (s[i] == ' ' || s[i] == '\n' || s[i] == '\t' || s[i] == '\r') {
				i++
			}
			if i >= len(s) {
				return nil, i, fmt.Errorf("eof in list")
			}
			if s[i] == ')' {
				return n, i + 1, nil
			}
			c, j, err := parseSexp(s, i)
			if err != nil {
				return nil, j, err
			}
			n.list = append(n.list, c)
			i = j
		}
	}
	if s[i] == '"' {
		j := i + 1
		for j < len(s) {
			if s[j] == '"' {
				if j+1 < len(s) && s[j+1] == '"' {
					j += 2
					continue
				}
				break
			}
			j++
		}
		return &sexp{atom: s[i : j+1]}, j + 1, nil
	}
	if s[i] == '|' {
		j := i + 1
		for j < len(s) && s[j] != '|' {
			j++
		}
		return &sexp{atom: s[i : j+1]}, j + 1, nil
	}
	j := i
	for j < len(s) && s[j] != ' ' && s[j] != ')' && s[j] != '(' && s[j] != '\n' && s[j] != '\t' {
		j++
	}
	return &sexp{atom: s[i:j]}, j, nil
}

func unescapeSMT(a string) string {
	a = a[1 : len(a)-1]
	a = strings.ReplaceAll(a, `""`, `"`)
	var sb strings.Builder
	for i := 0; i < len(a); i++ {
		if a[i] == '\\' && i+1 < len(a) && a[i+1] == 'u' {
			// \u{X..} or \uXXXX
			if i+2 < len(a) && a[i+2] == '{' {
				j := strings.IndexByte(a[i:], '}')
				if j > 0 {
					if v, err := strconv.ParseUint(a[i+3:i+j], 16, 32); err == nil {
						sb.WriteRune(rune(v))
						i += j
						continue
					}
				}
			} else if i+5 < len(a) {
				if v, err := strconv.ParseUint(a[i+2:i+6], 16, 32); err == nil {
					sb.WriteRune(rune(v))
					i += 5
					continue
				}
			}
		}
		if a[i] == '\\' && i+1 < len(a) && a[i+1] == 'x' && i+3 < len(a) {
			if v, err := strconv.ParseUint(a[i+2:i+4], 16, 8); err == nil {
				sb.WriteByte(byte(v))
				i += 3
				continue
			}
		}
		sb.WriteByte(a[i])
	}
	return sb.String()
}

func bvAtom(a string) (uint64, bool) {
	if strings.HasPrefix(a, "#x") {
		v, err := strconv.ParseUint(a[2:], 16, 64)
		return v, err == nil
	}
	if strings.HasPrefix(a, "#b") {
		v, err := strconv.ParseUint(a[2:], 2, 64)
		return v, err == nil
	}
	return 0, false
}

func valueOf(x *sexp, so term.Sort) (*term.Term, error) {
	switch so.K {
	case term.KBool:
		if x.atom == "true" {
			return term.True, nil
		}
		if x.atom == "false" {
			return term.False, nil
		}
	case term.KBV:
		if v, ok := bvAtom(x.atom); ok {
			return term.BVC(int(so.W), v), nil
		}
		if x.isL && len(x.list) == 3 && x.list[0].atom == "_" && strings.HasPrefix(x.list[1].atom, "bv") {
			v, err := strconv.ParseUint(x.list[1].atom[2:], 10, 64)
			if err == nil {
				return term.BVC(int(so.W), v), nil
			}
		}
	case term.KStr:
		if strings.HasPrefix(x.atom, `"`) {
			return term.StrC(unescapeSMT(x.atom)), nil
		}
	case term.KInt:
		if x.isL && len(x.list) == 2 && x.list[0].atom == "-" {
			v, err := strconv.ParseInt(x.list[1].atom, 10, 64)
			if err == nil {
				return term.IntC(-v), nil
			}
		}
		if v, err := strconv.ParseInt(x.atom, 10, 64); err == nil {
			return term.IntC(v), nil
		}
	case term.KF64:
		if x.isL && len(x.list) == 4 && x.list[0].atom == "fp" {
			s, ok1 := bvAtom(x.list[1].atom)
			e, ok2 := bvAtom(x.list[2].atom)
			m, ok3 := bvAtom(x.list[3].atom)
			if ok1 && ok2 && ok3 {
				bits := s<<63 | e<<52 | m
				return term.F64C(floatFromBits(bits)), nil
			}
		}
		if x.isL && len(x.list) >= 2 && x.list[0].atom == "_" {
			switch x.list[1].atom {
			case "+zero":
				return term.F64C(0), nil
			case "-zero":
				return term.F64C(floatFromBits(1 << 63)), nil
			case "+oo":
				return term.F64C(floatFromBits(0x7ff << 52)), nil
			case "-oo":
				return term.F64C(floatFromBits(0xfff << 52)), nil
			case "NaN":
				return term.F64C(floatFromBits(0x7ff8 << 48)), nil
			}
		}
	}
	return nil, fmt.Errorf("cannot parse value %s of sort %s", dump(x), so.SMT())
}

func dump(x *sexp) string {
	if !x.isL {
		return x.atom
	}
	var p []string
	for _, c := range x.list {
		p = append(p, dump(c))
	}
	return "(" + strings.Join(p, " ") + ")"
}
