package smt

import (
	"testing"

	"gosym/term"
)

func TestBasic(t *testing.T) {
	for _, k := range []string{"z3", "z3-new", "cvc5"} {
		s, err := New(k, 10000, "")
		if err != nil {
			t.Fatal(err)
		}
		x := term.Var("x", term.BV(64))
		y := term.Var("y", term.Str)
		b := term.Var("b", term.Bool)
		c1 := term.Eq(term.BVBin(term.OpAdd, x, term.BVC(64, 3)), term.BVC(64, 10))
		c2 := term.Eq(term.SConcat(y, term.StrC("a\"b")), term.StrC("zza\"b"))
		if r := s.Check(c1, c2, b); r != Sat {
			t.Fatalf("%s: %v %s", k, r, s.LastErr)
		}
		m, err := s.Model([]*term.Term{x, y, b})
		if err != nil {
			t.Fatal(err)
		}
		if m[x].U != 7 || m[y].S != "zz" || m[b] != term.True {
			t.Fatalf("%s: model %v %v %v", k, m[x], m[y], m[b])
		}
		if r := s.Check(c1, term.Eq(x, term.BVC(64, 8))); r != Unsat {
			t.Fatalf("%s: %v", k, r)
		}
		f := term.Var("f", term.F64)
		c3 := term.FCmp(term.OpFLt, term.F64C(1.5), f)
		if r := s.Check(c3, term.FCmp(term.OpFLt, f, term.F64C(2))); r != Sat {
			t.Fatalf("%s: fp %v %s", k, r, s.LastErr)
		}
		m, err = s.Model([]*term.Term{f})
		if err != nil {
			t.Fatal(err)
		}
		t.Logf("%s f=%v stats=%+v", k, m[f], s.Stats)
		s.Close()
	}
}
