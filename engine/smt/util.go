package smt

import "math"

func floatFromBits(b uint64) float64 { return math.Float64frombits(b) }
