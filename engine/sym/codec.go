package sym

import (
	"fmt"
	"go/types"
	"hash/fnv"
	"reflect"
	"strings"
	"unicode/utf8"

	"golang.org/x/tools/go/ssa"

	"gosym/term"
)

// Abstract codec (DESIGN §3.7): Marshal(v) returns an opaque one-cell byte token carrying a deep
// snapshot of v; Unmarshal(token, &x) restores the snapshot into x (exported fields only). Bytes that
// are not a token are "malformed": Unmarshal returns an error. The wire formats themselves
// (encoding/json, protobuf) are outside every claim.

type Snap struct {
	T     types.Type // type of the marshalled value (pointers stripped)
	V     Value
	Codec string
}

type SnapSlice struct {
	Nil   bool
	Elems []Value
}
type SnapMap struct {
	Nil  bool
	Ents []MapEnt
}
type SnapPtr struct {
	Nil  bool
	Elem Value
}

func stripPtr(t types.Type) types.Type {
	for {
		p, ok := t.Underlying().(*types.Pointer)
		if !ok {
			return t
		}
		t = p.Elem()
	}
}

// utf8Valid: is the string term valid UTF-8? Decided structurally: constants by inspection; solver variables
// (vrt.Str) are valid by the harness convention (the properties quantify over valid-UTF-8 strings); decimal
// renderings are valid; a concatenation is valid when its parts are; a string converted from arbitrary bytes
// is valid exactly when its bytes are well-formed UTF-8 (exact formula); anything else is taken as valid (no
// alarm from what is not modelled).
func utf8Valid(t *term.Term) *term.Term {
	switch t.Op {
	case term.OpConst:
		return term.BoolC(utf8.ValidString(t.S))
	case term.OpSConcat:
		return term.And(utf8Valid(t.Args[0]), utf8Valid(t.Args[1]))
	case term.OpIte:
		return term.Ite(t.Args[0], utf8Valid(t.Args[1]), utf8Valid(t.Args[2]))
	case term.OpUF:
		if strings.HasPrefix(t.S, "str_of_bytes_") && len(t.Args) > 0 {
			return utf8ValidBytes(t.Args)
		}
	}
	return term.True
}

// utf8ValidBytes is the exact UTF-8 well-formedness condition (Unicode table 3-7) of a byte string of concrete
// length, as a formula over its bytes.
func utf8ValidBytes(b []*term.Term) *term.Term {
	n := len(b)
	in := func(x *term.Term, lo, hi uint64) *term.Term {
		return term.And(term.BVCmp(term.OpULe, term.BVC(8, lo), x), term.BVCmp(term.OpULe, x, term.BVC(8, hi)))
	}
	cont := func(i int) *term.Term {
		if i >= n {
			return term.False
		}
		return in(b[i], 0x80, 0xBF)
	}
	at := func(i int, lo, hi uint64) *term.Term {
		if i >= n {
			return term.False
		}
		return in(b[i], lo, hi)
	}
	valid := make([]*term.Term, n+5)
	for i := n; i < n+5; i++ {
		valid[i] = term.BoolC(i == n)
	}
	for i := n - 1; i >= 0; i-- {
		x := b[i]
		valid[i] = term.Or(
			term.And(in(x, 0x00, 0x7F), valid[i+1]),
			term.And(in(x, 0xC2, 0xDF), cont(i+1), valid[i+2]),
			term.And(in(x, 0xE0, 0xE0), at(i+1, 0xA0, 0xBF), cont(i+2), valid[i+3]),
			term.And(term.Or(in(x, 0xE1, 0xEC), in(x, 0xEE, 0xEF)), cont(i+1), cont(i+2), valid[i+3]),
			term.And(in(x, 0xED, 0xED), at(i+1, 0x80, 0x9F), cont(i+2), valid[i+3]),
			term.And(in(x, 0xF0, 0xF0), at(i+1, 0x90, 0xBF), cont(i+2), cont(i+3), valid[i+4]),
			term.And(in(x, 0xF1, 0xF3), cont(i+1), cont(i+2), cont(i+3), valid[i+4]),
			term.And(in(x, 0xF4, 0xF4), at(i+1, 0x80, 0x8F), cont(i+2), cont(i+3), valid[i+4]),
		)
	}
	return valid[0]
}

// jsonString: what a Go string becomes on its way through encoding/json: unchanged when it is valid UTF-8,
// otherwise some other string (invalid sequences are replaced by U+FFFD).
func (e *Engine) jsonString(st *State, t *term.Term) *term.Term {
	ok := utf8Valid(t)
	if ok.IsTrue() {
		return t
	}
	m := term.UF("json_coerced", term.Str, t)
	st.PC = term.And(st.PC, term.Or(ok, term.Not(term.Eq(m, t))))
	return term.Ite(ok, t, m)
}

func (e *Engine) snapshot(st *State, v Value, t types.Type) Value {
	v = e.pick(st, v)
	if specialLeaves(t) >= 0 {
		return v
	}
	switch u := t.Underlying().(type) {
	case *types.Basic:
		if e.snapCodec == "json" && u.Info()&types.IsString != 0 {
			if tv, ok := v.(*term.Term); ok {
				return e.jsonString(st, tv)
			}
		}
		return v
	case *types.Pointer:
		p := v.(Ptr)
		if p.Obj == 0 {
			return SnapPtr{Nil: true}
		}
		return SnapPtr{Elem: e.snapshot(st, e.load(st, p, u.Elem()), u.Elem())}
	case *types.Slice:
		s := v.(Slice)
		if s.Obj == 0 {
			return SnapSlice{Nil: true}
		}
		es := sizeOf(u.Elem())
		out := SnapSlice{}
		for i := 0; i < s.Len; i++ {
			out.Elems = append(out.Elems, e.snapshot(st, e.load(st, Ptr{s.Obj, s.Off + i*es}, u.Elem()), u.Elem()))
		}
		return out
	case *types.Map:
		m := v.(MapRef)
		if m.Obj == 0 {
			return SnapMap{Nil: true}
		}
		out := SnapMap{}
		for _, en := range st.obj(m.Obj).Ents {
			out.Ents = append(out.Ents, MapEnt{K: e.snapshot(st, en.K, u.Key()), V: e.snapshot(st, en.V, u.Elem()), G: en.G})
		}
		return out
	case *types.Struct:
		s := v.(Struct)
		lt := layoutOf(t)
		out := make(Struct, 0, u.NumFields())
		for i := 0; i < u.NumFields(); i++ {
			ft := u.Field(i).Type()
			n := sizeOf(ft)
			var fv Value
			if isAggregate(ft) {
				fv = Struct(append([]Value(nil), s[lt.fields[i]:lt.fields[i]+n]...))
			} else if n == 1 {
				fv = s[lt.fields[i]]
			} else {
				fv = Struct{}
			}
			out = append(out, e.snapshot(st, fv, ft))
		}
		return out
	case *types.Array:
		s := v.(Struct)
		n := sizeOf(u.Elem())
		out := make(Struct, 0, u.Len())
		for i := 0; i < int(u.Len()); i++ {
			var ev Value
			if isAggregate(u.Elem()) {
				ev = Struct(append([]Value(nil), s[i*n:(i+1)*n]...))
			} else {
				ev = s[i]
			}
			out = append(out, e.snapshot(st, ev, u.Elem()))
		}
		return out
	case *types.Interface:
		iv := v.(Iface)
		if iv.T == nil {
			return iv
		}
		return Iface{T: iv.T, V: e.snapshot(st, iv.V, iv.T)}
	}
	abort("UNMODELLED", "codec snapshot of type %v", t)
	return nil
}

func jsonSkips(f *types.Var, tag string) bool {
	if !f.Exported() {
		return true
	}
	j := reflect.StructTag(tag).Get("json")
	return j == "-"
}

// restore rebuilds a value of type t from a snapshot; cur is the current value (kept for fields the codec skips).
func (e *Engine) restore(st *State, th *Thread, snap Value, t types.Type, cur Value, codec string) Value {
	if specialLeaves(t) >= 0 {
		return cur
	}
	switch u := t.Underlying().(type) {
	case *types.Basic:
		return snap
	case *types.Pointer:
		sp := snap.(SnapPtr)
		if sp.Nil {
			return Ptr{}
		}
		id := e.allocMem(st, th, u.Elem(), 1, "codec")
		e.store(st, Ptr{Obj: id}, u.Elem(), e.restore(st, th, sp.Elem, u.Elem(), zeroValue(u.Elem()), codec))
		return Ptr{Obj: id}
	case *types.Slice:
		ss := snap.(SnapSlice)
		if ss.Nil {
			return Slice{}
		}
		n := len(ss.Elems)
		id := e.allocMem(st, th, u.Elem(), n, "codec")
		es := sizeOf(u.Elem())
		for i, el := range ss.Elems {
			e.store(st, Ptr{id, i * es}, u.Elem(), e.restore(st, th, el, u.Elem(), zeroValue(u.Elem()), codec))
		}
		return Slice{Obj: id, Len: n, Cap: n}
	case *types.Map:
		sm := snap.(SnapMap)
		if sm.Nil {
			return MapRef{}
		}
		id := e.newObjID(st, th, "codec")
		o := &Object{Kind: OMap, T: t, Site: "codec", ep: st.ep}
		for _, en := range sm.Ents {
			o.Ents = append(o.Ents, MapEnt{K: e.restore(st, th, en.K, u.Key(), nil, codec), V: e.restore(st, th, en.V, u.Elem(), zeroValue(u.Elem()), codec), G: en.G})
		}
		st.setObj(id, o)
		return MapRef{id}
	case *types.Struct:
		ss := snap.(Struct)
		var out Struct
		cs, _ := cur.(Struct)
		lt := layoutOf(t)
		for i := 0; i < u.NumFields(); i++ {
			ft := u.Field(i).Type()
			n := sizeOf(ft)
			var curF Value
			if cs != nil {
				if isAggregate(ft) {
					curF = Struct(append([]Value(nil), cs[lt.fields[i]:lt.fields[i]+n]...))
				} else if n == 1 {
					curF = cs[lt.fields[i]]
				}
			}
			var fv Value
			if codec == "json" && jsonSkips(u.Field(i), u.Tag(i)) {
				fv = curF
				if fv == nil {
					fv = zeroValue(ft)
				}
			} else {
				fv = e.restore(st, th, ss[i], ft, curF, codec)
			}
			if s2, ok := fv.(Struct); ok && isAggregate(ft) {
				out = append(out, s2...)
			} else if n == 1 {
				out = append(out, fv)
			}
		}
		return out
	case *types.Array:
		ss := snap.(Struct)
		var out Struct
		for _, el := range ss {
			fv := e.restore(st, th, el, u.Elem(), zeroValue(u.Elem()), codec)
			if s2, ok := fv.(Struct); ok && isAggregate(u.Elem()) {
				out = append(out, s2...)
			} else {
				out = append(out, fv)
			}
		}
		return out
	case *types.Interface:
		iv := snap.(Iface)
		if iv.T == nil {
			return iv
		}
		return Iface{T: iv.T, V: e.restore(st, th, iv.V, iv.T, nil, codec)}
	}
	abort("UNMODELLED", "codec restore of type %v", t)
	return nil
}

func (e *Engine) marshalToken(st *State, th *Thread, v Value, codec string) Value {
	iv := e.pick(st, v).(Iface)
	if iv.T == nil {
		abort("UNMODELLED", "%s.Marshal(nil)", codec)
	}
	t := iv.T
	val := iv.V
	// strip pointers: the token carries the pointee
	for {
		p, ok := t.Underlying().(*types.Pointer)
		if !ok {
			break
		}
		pv := e.pick(st, val).(Ptr)
		if pv.Obj == 0 {
			abort("UNMODELLED", "%s.Marshal of nil pointer", codec)
		}
		val = e.load(st, pv, p.Elem())
		t = p.Elem()
	}
	e.snapCodec = codec
	snap := &Snap{T: t, V: e.snapshot(st, val, t), Codec: codec}
	e.snapCodec = ""
	id := e.newObjID(st, th, codec+".Marshal")
	// the token byte is named after the allocation AND the contents it stands for, so that the byte value alone
	// identifies the snapshot wherever it is copied to (buffers, message copies)
	hsh := fnv.New64a()
	hsh.Write([]byte(snap.T.String() + "|" + codec + "|" + snapSig(snap.V)))
	tok := term.Var(fmt.Sprintf("token!%d!%x", id, hsh.Sum64()), term.BV(8))
	e.snaps.Store(tok, snap)
	// an opaque byte: not ASCII (never white space, never a JSON delimiter)
	st.assume(term.BVCmp(term.OpULe, term.BVC(8, 0x80), tok))
	st.setObj(id, &Object{Kind: OMem, Cells: []Value{tok}, Site: codec + " token", Snap: snap, ep: st.ep})
	return Slice{Obj: id, Len: 1, Cap: 1}
}

// snapSig renders a snapshot value completely (terms by their interned identity).
func snapSig(v Value) string {
	switch x := v.(type) {
	case *term.Term:
		return fmt.Sprintf("t%d", x.ID)
	case SnapSlice:
		if x.Nil {
			return "[nil]"
		}
		out := "["
		for _, el := range x.Elems {
			out += snapSig(el) + ","
		}
		return out + "]"
	case SnapMap:
		if x.Nil {
			return "{nil}"
		}
		out := "{"
		for _, en := range x.Ents {
			out += snapSig(en.K) + ":" + snapSig(en.V) + "?" + fmt.Sprintf("t%d", en.G.ID) + ","
		}
		return out + "}"
	case SnapPtr:
		if x.Nil {
			return "&nil"
		}
		return "&" + snapSig(x.Elem)
	case Struct:
		out := "("
		for _, el := range x {
			out += snapSig(el) + ","
		}
		return out + ")"
	case Iface:
		if x.T == nil {
			return "iface(nil)"
		}
		return "iface(" + x.T.String() + ":" + snapSig(x.V) + ")"
	case nil:
		return "<none>"
	}
	return showValue(v)
}

// tokenAt returns the snapshot whose token byte is stored in cell i of the slice.
func (e *Engine) tokenAt(st *State, sl Slice, i int) *Snap {
	if sl.Obj == 0 || i >= sl.Len {
		return nil
	}
	c, ok := st.obj(sl.Obj).Cells[sl.Off+i].(*term.Term)
	if !ok {
		return nil
	}
	if s, ok := e.snaps.Load(c); ok {
		return s.(*Snap)
	}
	return nil
}

func isJSONSpace(v Value) bool {
	t, ok := v.(*term.Term)
	if !ok || !t.IsConst() {
		return false
	}
	switch t.U {
	case ' ', '\t', '\r', '\n':
		return true
	}
	return false
}

// unmarshalToken decodes data into target. first=false: the whole input must be one value (plus white space), as
// json.Unmarshal demands; first=true: only the first value is decoded (a json.Decoder), the number of bytes it
// occupied is returned.
func (e *Engine) unmarshalToken(st *State, th *Thread, data Value, target Value, codec string) Value {
	v, _ := e.unmarshalFirst(st, th, data, target, codec, false)
	return v
}

func (e *Engine) unmarshalFirst(st *State, th *Thread, data Value, target Value, codec string, first bool) (Value, int) {
	sl := e.pick(st, data).(Slice)
	tv := e.pick(st, target).(Iface)
	malformed := func(why string) (Value, int) {
		return e.opaqueError(codec + ": cannot unmarshal: " + why), 0
	}
	if tv.T == nil {
		return malformed("nil target")
	}
	pt, ok := tv.T.Underlying().(*types.Pointer)
	if !ok {
		return malformed("non-pointer target " + tv.T.String())
	}
	p := e.pick(st, tv.V).(Ptr)
	if p.Obj == 0 {
		return malformed("nil pointer target")
	}
	if sl.Obj == 0 || sl.Len == 0 {
		return malformed("empty input")
	}
	start := 0
	if codec == "json" {
		for start < sl.Len && isJSONSpace(st.obj(sl.Obj).Cells[sl.Off+start]) {
			start++
		}
	}
	snap := e.tokenAt(st, sl, start)
	if snap == nil || snap.Codec != codec {
		return malformed("input is not " + codec)
	}
	used := start + 1
	if !first {
		for i := used; i < sl.Len; i++ {
			if codec != "json" || !isJSONSpace(st.obj(sl.Obj).Cells[sl.Off+i]) {
				return malformed("invalid data after the top-level value")
			}
		}
	}
	et := pt.Elem()
	// unmarshalling into *T where the target itself is a pointer type (**T): allocate
	if !types.Identical(stripPtr(et), snap.T) {
		return malformed(fmt.Sprintf("value of type %s into %s", snap.T, et))
	}
	if _, isPtr := et.Underlying().(*types.Pointer); isPtr {
		abort("UNMODELLED", "unmarshal into pointer-to-pointer")
	}
	cur := e.load(st, p, et)
	e.store(st, p, et, e.restore(st, th, snap.V, et, cur, codec))
	return Iface{}, used
}

func init() {
	moreIntrinsics = append(moreIntrinsics, func(e *Engine) {
		I := e.intrinsics
		I["encoding/json.Marshal"] = func(e *Engine, st *State, th *Thread, fn *ssa.Function, a []Value, in *ssa.Call) Value {
			return Tuple{e.marshalToken(st, th, a[0], "json"), Iface{}}
		}
		I["encoding/json.Unmarshal"] = func(e *Engine, st *State, th *Thread, fn *ssa.Function, a []Value, in *ssa.Call) Value {
			return e.unmarshalToken(st, th, a[0], a[1], "json")
		}
		// the first JSON value of a byte string (json.Decoder): (bytes consumed, error)
		I[ModulePath+"/zzverif/models.jsonDecodeFirst"] = func(e *Engine, st *State, th *Thread, fn *ssa.Function, a []Value, in *ssa.Call) Value {
			v, used := e.unmarshalFirst(st, th, a[0], a[1], "json", true)
			return Tuple{term.BVC(64, uint64(used)), v}
		}
	})
}

var _ = strings.Contains
