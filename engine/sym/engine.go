package sym

import (
	"fmt"
	"go/types"
	"io"
	"os"
	"sort"
	"strings"
	"sync"
	"time"

	"golang.org/x/tools/go/ssa"

	"gosym/smt"
	"gosym/term"
)

type objKey struct {
	th   ThreadID
	n    int
	site string
}

type threadKey struct {
	parent ThreadID
	site   string
	n      int
}

type Stats struct {
	Steps, Forks, Calls, BackEdges int
	Configs, Transitions, Merges   int
	Selectors, Unmergeable         int
	Terminals, Deadlocks           int
	Paths, Completed               int
	Asserts, AssertQueries         int
	MaxFrontier                    int
	StoppedAfterViolation          bool
	IdenticalMerges                int
	MergedReleases                 int
}

type Intrinsic func(e *Engine, st *State, th *Thread, fn *ssa.Function, args []Value, in *ssa.Call) Value

type Observation struct {
	Label string
	Val   Value
}

// Engine fields that are maps/pointers are shared by the per-worker copies made by the parallel explorer;
// every write to them happens under mu (or the solver session lock).
type Engine struct {
	mu        *sync.Mutex // guards the shared maps and result lists
	solverMu  *sync.Mutex // one solver session at a time
	inSession bool        // this worker holds solverMu (per-worker copy field)
	Workers   int
	prog      *ssa.Program
	Solver    *smt.Solver
	Log       io.Writer

	// options
	FeasCheck     bool
	TraceExec     bool
	Unwind        int
	MaxDepth      int
	MaxEnum       int
	MaxAlloc      int
	NoMerge       bool
	MergeReleases bool // execute Unlock/RUnlock/WaitGroup.Add without a scheduling point (left movers)
	MergeFull     bool // merge differing states under selector variables (symbolic schedule); default: join identical states only
	MaxConfigs    int
	Deadline      time.Time

	Stats Stats

	intrinsics map[string]Intrinsic
	modelFns   map[string]*ssa.Function
	atomicFns  map[string]bool
	visibleFns map[string]VisKind

	objIDs      *sync.Map // objKey -> ObjID
	nObj        *int
	threadIDs   *sync.Map // threadKey -> ThreadID
	threadKeyOf *sync.Map // ThreadID -> threadKey
	nThr        *int
	localFuncs  map[*ssa.Function]bool // per-worker set of functions entered
	globals     map[*ssa.Global]ObjID
	initPkgs    map[string]bool

	rtypeT      types.Type
	snaps       *sync.Map // token byte (term) -> *Snap
	runtimeErrT types.Type
	panicNilT   types.Type

	probes     map[*term.Term]*term.Term
	strToBytes map[*term.Term]Slice
	bytesAx    map[int]bool

	symVars      map[string]*term.Term // vrt labels -> variable
	symOrder     []string
	symOrd       *[]string
	assumes      *int64
	Violations   []*Violation
	violSeen     map[string]bool
	Inconclusive []string
	inconcl      *[]string
	viol         *[]*Violation
	witness      **Violation
	Funcs        map[string]bool
	ModelsUsed   map[string]bool
	Assumes      int
	Witness      *Violation // reachability witness (model of a completed path)
	nsel         int
	nclock       int
	ntoken       int
	durStrs      map[*term.Term]*term.Term
	fnIDs        *sync.Map
	nFn          *int

	harnessName     string
	promoted        map[ssa.Instruction]bool // racy accesses promoted to visible operations
	RaceInstrs      map[ssa.Instruction]bool
	RaceCheck       bool
	RaceIsViolation bool
	curThread       ThreadID
	curInstr        ssa.Instruction
	Races           map[string]string
	Reached         map[string]bool
	snapCodec       string
	AfterViolation  time.Duration // how long exploration goes on after the first violation was found
	Timed           bool    // timed semantics for timers (see annotateTimed)
	curAlt          FireAlt // the alternative being fired
	Bounds          map[string]int // harness size parameters overriding the quick-tier defaults (vrt.Bound)
	WitnessWanted   bool
	ReportAll       bool
	Progress        bool
	RepoRoot        string
	OnViolation     func(*Violation)
	Observations    []string
}

func NewEngine(prog *ssa.Program, solver *smt.Solver) *Engine {
	e := &Engine{prog: prog, Solver: solver, Log: os.Stderr, mu: &sync.Mutex{}, solverMu: &sync.Mutex{}, snaps: &sync.Map{}, Workers: 1,
		FeasCheck: true, MergeReleases: true, Unwind: 300, MaxDepth: 200, MaxEnum: 16, AfterViolation: 30 * time.Second, MaxAlloc: 40000, MaxConfigs: 5_000_000,
		intrinsics: map[string]Intrinsic{}, modelFns: map[string]*ssa.Function{}, atomicFns: map[string]bool{},
		visibleFns: map[string]VisKind{},
		objIDs:     &sync.Map{}, threadIDs: &sync.Map{}, threadKeyOf: &sync.Map{}, nObj: new(int), nThr: new(int), nFn: new(int), globals: map[*ssa.Global]ObjID{},
		initPkgs: map[string]bool{}, probes: map[*term.Term]*term.Term{}, strToBytes: map[*term.Term]Slice{},
		bytesAx: map[int]bool{}, symVars: map[string]*term.Term{}, violSeen: map[string]bool{},
		Funcs: map[string]bool{}, ModelsUsed: map[string]bool{}, fnIDs: &sync.Map{},
		durStrs:  map[*term.Term]*term.Term{},
		promoted: map[ssa.Instruction]bool{}, RaceInstrs: map[ssa.Instruction]bool{}, Races: map[string]string{}, Reached: map[string]bool{}, RaceCheck: true,
	}
	e.inconcl = &e.Inconclusive
	e.symOrd = &e.symOrder
	e.assumes = new(int64)
	e.viol = &e.Violations
	e.witness = &e.Witness
	registerIntrinsics(e)
	for _, f := range moreIntrinsics {
		f(e)
	}
	return e
}

func (e *Engine) internObj(k objKey) ObjID {
	if id, ok := e.objIDs.Load(k); ok {
		return id.(ObjID)
	}
	e.mu.Lock()
	defer e.mu.Unlock()
	if id, ok := e.objIDs.Load(k); ok {
		return id.(ObjID)
	}
	*e.nObj++
	id := ObjID(*e.nObj)
	e.objIDs.Store(k, id)
	return id
}

func (e *Engine) internThread(k threadKey) ThreadID {
	if id, ok := e.threadIDs.Load(k); ok {
		return id.(ThreadID)
	}
	e.mu.Lock()
	defer e.mu.Unlock()
	if id, ok := e.threadIDs.Load(k); ok {
		return id.(ThreadID)
	}
	*e.nThr++
	id := ThreadID(*e.nThr)
	e.threadIDs.Store(k, id)
	e.threadKeyOf.Store(id, k)
	return id
}

func (e *Engine) threadName(id ThreadID) string {
	if id == 1 {
		return "main"
	}
	kv, _ := e.threadKeyOf.Load(id)
	k, _ := kv.(threadKey)
	return fmt.Sprintf("%s/go@%s#%d", e.threadName(k.parent), k.site, k.n)
}

func (e *Engine) fnID(f *ssa.Function) int {
	if id, ok := e.fnIDs.Load(f); ok {
		return id.(int)
	}
	e.mu.Lock()
	defer e.mu.Unlock()
	if id, ok := e.fnIDs.Load(f); ok {
		return id.(int)
	}
	*e.nFn++
	e.fnIDs.Store(f, *e.nFn)
	return *e.nFn
}

func (e *Engine) noteFunction(f *ssa.Function) {
	if f.Pkg == nil && f.Synthetic != "" {
		return
	}
	if e.localFuncs != nil {
		e.localFuncs[f] = true
		return
	}
	e.mu.Lock()
	e.Funcs[f.String()] = true
	e.mu.Unlock()
}

// ---------------------------------------------------------------- solver glue

// check returns 1 sat, 2 unsat, 0 unknown.
// session: solver dialogue sections (check + get-value sequences) are exclusive among workers.
func (e *Engine) lockSolver() (unlock func()) {
	if e.inSession {
		return func() {}
	}
	e.solverMu.Lock()
	e.inSession = true
	return func() { e.inSession = false; e.solverMu.Unlock() }
}

func (e *Engine) inconclusive(msg string) {
	e.mu.Lock()
	*e.inconcl = append(*e.inconcl, msg)
	e.mu.Unlock()
}

func (e *Engine) check(conj ...*term.Term) int {
	defer e.lockSolver()()
	r := e.Solver.Check(conj...)
	switch r {
	case smt.Sat:
		return 1
	case smt.Unsat:
		return 2
	}
	e.inconclusive("solver unknown: " + e.Solver.LastErr)
	return 0
}

// checkModel is check with a fresh solver call, so that model() may follow.
func (e *Engine) checkModel(conj ...*term.Term) int {
	defer e.lockSolver()()
	r := e.Solver.CheckModel(conj...)
	switch r {
	case smt.Sat:
		return 1
	case smt.Unsat:
		return 2
	}
	e.inconclusive("solver unknown: " + e.Solver.LastErr)
	return 0
}

func (e *Engine) model(vars []*term.Term) map[*term.Term]*term.Term {
	defer e.lockSolver()()
	m, err := e.Solver.Model(vars)
	if err != nil {
		e.inconclusive("model: " + err.Error())
		return nil
	}
	return m
}

// probeVar returns a variable constrained (permanently) to equal t, so its value can be read from models.
func (e *Engine) probeVar(t *term.Term) *term.Term {
	if t.Op == term.OpVar {
		return t
	}
	defer e.lockSolver()()
	if v, ok := e.probes[t]; ok {
		return v
	}
	v := term.Var(fmt.Sprintf("probe!%d", t.ID), t.Sort)
	e.probes[t] = v
	e.Solver.Assert(term.Eq(v, t))
	return v
}

func (e *Engine) needBytesAxiom(n int) {
	// injectivity of str_of_bytes_n is applied syntactically by term.Eq; no quantified axiom is sent
	e.mu.Lock()
	e.bytesAx[n] = true
	e.mu.Unlock()
}

// ---------------------------------------------------------------- globals and package initialisation

func (e *Engine) globalObj(st *State, g *ssa.Global) ObjID {
	id, ok := e.globals[g]
	if !ok {
		abort("UNMODELLED", "global %s of package %s that was not initialised", g.Name(), g.Pkg.Pkg.Path())
	}
	return id
}

// ZeroOnly lists packages whose globals are allocated (zero values) but whose initialisers do not run.
var ZeroOnly = map[string]bool{"time": true}

// InitPackages allocates the globals of the listed packages and runs their init functions
// (calls into init functions of packages outside the list are skipped).
func (e *Engine) InitPackages(st *State, paths []string) {
	var pkgs []*ssa.Package
	for _, p := range e.prog.AllPackages() {
		for _, w := range paths {
			if p.Pkg.Path() == w || (strings.HasSuffix(w, "/...") && strings.HasPrefix(p.Pkg.Path(), strings.TrimSuffix(w, "...")[:len(w)-4])) {
				pkgs = append(pkgs, p)
				if !ZeroOnly[p.Pkg.Path()] {
					e.initPkgs[p.Pkg.Path()] = true
				}
			}
		}
	}
	sort.Slice(pkgs, func(i, j int) bool { return pkgs[i].Pkg.Path() < pkgs[j].Pkg.Path() })
	main := st.Threads[0]
	for _, p := range pkgs {
		var names []string
		for n, m := range p.Members {
			if _, ok := m.(*ssa.Global); ok {
				names = append(names, n)
			}
		}
		sort.Strings(names)
		for _, n := range names {
			g := p.Members[n].(*ssa.Global)
			t := g.Type().Underlying().(*types.Pointer).Elem()
			id := e.internObj(objKey{0, len(e.globals) + 1, "global:" + p.Pkg.Path() + "." + n})
			e.globals[g] = id
			st.setObj(id, &Object{Kind: OMem, Cells: appendZero(nil, t), T: t, Site: "global " + n, ep: st.ep})
		}
	}
	_ = main
}

// RunInits executes the package initialisers of the initialised packages, in dependency order.
func (e *Engine) RunInits(st *State) *State {
	done := map[*ssa.Package]bool{}
	var order []*ssa.Package
	var visit func(p *ssa.Package)
	visit = func(p *ssa.Package) {
		if done[p] {
			return
		}
		done[p] = true
		for _, imp := range p.Pkg.Imports() {
			if ip := e.prog.Package(imp); ip != nil {
				visit(ip)
			}
		}
		if e.initPkgs[p.Pkg.Path()] {
			order = append(order, p)
		}
	}
	all := e.prog.AllPackages()
	sort.Slice(all, func(i, j int) bool { return all[i].Pkg.Path() < all[j].Pkg.Path() })
	for _, p := range all {
		visit(p)
	}
	for _, p := range order {
		init := p.Func("init")
		if init == nil || init.Blocks == nil {
			continue
		}
		st = e.runSequentialCall(st, init, "init of "+p.Pkg.Path())
	}
	return st
}

// runSequentialCall runs fn() on the main thread to completion; it must neither fork nor block.
func (e *Engine) runSequentialCall(st *State, fn *ssa.Function, what string) *State {
	th := st.threadW(0)
	th.Exited = false
	e.callFunction(st, th, &Closure{Fn: fn}, nil, nil, FQuiesce)
	depth := len(th.Frames)
	if e.TraceExec {
		fmt.Fprintf(e.Log, "== %s\n", what)
	}
	for {
		th = st.Threads[0]
		if len(th.Frames) < depth || th.Exited {
			break
		}
		r := e.step(st, 0)
		switch r.kind {
		case stCont:
		case stExit:
			th = st.threadW(0)
			if th.Panic != nil {
				abort("INTERNAL", "%s panicked: %s %s", what, th.Panic.Msg, showValue(th.Panic.Val))
			}
			th.Exited = false
			return st
		case stVisible:
			// visible operations during init run inline (single thread)
			th = st.threadW(0)
			op := th.Pending
			th.Pending = nil
			e.fireInline(st, th, op)
		default:
			abort("INTERNAL", "%s forked or died (kind %d)", what, r.kind)
		}
	}
	return st
}
