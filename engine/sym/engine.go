package sym

import (
	"fmt"
	"go/types"
	"io"
	"os"
	"sort"
	"strings"
	"time"

	"golang.org/x/tools/go/ssa"

	"gosym/smt"
	"gosym/term"
)

type objKey struct {
	th   ThreadID
	n    int
	site string
}

type threadKey struct {
	parent ThreadID
	site   string
	n      int
}

type Stats struct {
	Steps, Forks, Calls, BackEdges int
	Configs, Transitions, Merges   int
	Selectors, Unmergeable         int
	Terminals, Deadlocks           int
	Paths, Completed               int
	Asserts, AssertQueries         int
	MaxFrontier                    int
	IdenticalMerges                int
	MergedReleases                 int
}

type Intrinsic func(e *Engine, st *State, th *Thread, fn *ssa.Function, args []Value, in *ssa.Call) Value

type Observation struct {
	Label string
	Val   Value
}

type Engine struct {
	prog   *ssa.Program
	Solver *smt.Solver
	Log    io.Writer

	// options
	FeasCheck bool
	TraceExec bool
	Unwind    int
	MaxDepth  int
	MaxEnum   int
	MaxAlloc  int
	NoMerge   bool
	MergeReleases bool // execute Unlock/RUnlock/WaitGroup.Add without a scheduling point (left movers)
	MergeFull bool // merge differing states under selector variables (symbolic schedule); default: join identical states only
	MaxConfigs int
	Deadline  time.Time

	Stats Stats

	intrinsics map[string]Intrinsic
	modelFns   map[string]*ssa.Function
	atomicFns  map[string]bool
	visibleFns map[string]VisKind

	objIDs    map[objKey]ObjID
	objKeys   []objKey
	threadIDs map[threadKey]ThreadID
	threadKeys []threadKey
	globals   map[*ssa.Global]ObjID
	initPkgs  map[string]bool

	runtimeErrT types.Type
	panicNilT   types.Type

	probes     map[*term.Term]*term.Term
	strToBytes map[*term.Term]Slice
	bytesAx    map[int]bool

	symVars    map[string]*term.Term // vrt labels -> variable
	symOrder   []string
	Violations []*Violation
	violSeen   map[string]bool
	Inconclusive []string
	Funcs      map[string]bool
	ModelsUsed map[string]bool
	Assumes    int
	Witness    *Violation // reachability witness (model of a completed path)
	nsel       int
	nclock     int
	ntoken     int
	durStrs    map[*term.Term]*term.Term
	fnIDs      map[*ssa.Function]int

	harnessName string
	promoted    map[ssa.Instruction]bool // racy accesses promoted to visible operations
	RaceInstrs  map[ssa.Instruction]bool
	RaceCheck   bool
	RaceIsViolation bool
	curThread   ThreadID
	curInstr    ssa.Instruction
	Races       map[string]string
	WitnessWanted bool
	ReportAll     bool
	Progress      bool
	RepoRoot      string
	OnViolation   func(*Violation)
	Observations  []string
}

func NewEngine(prog *ssa.Program, solver *smt.Solver) *Engine {
	e := &Engine{prog: prog, Solver: solver, Log: os.Stderr,
		FeasCheck: true, MergeReleases: true, Unwind: 300, MaxDepth: 200, MaxEnum: 16, MaxAlloc: 40000, MaxConfigs: 5_000_000,
		intrinsics: map[string]Intrinsic{}, modelFns: map[string]*ssa.Function{}, atomicFns: map[string]bool{},
		visibleFns: map[string]VisKind{},
		objIDs:     map[objKey]ObjID{}, threadIDs: map[threadKey]ThreadID{}, globals: map[*ssa.Global]ObjID{},
		initPkgs: map[string]bool{}, probes: map[*term.Term]*term.Term{}, strToBytes: map[*term.Term]Slice{},
		bytesAx: map[int]bool{}, symVars: map[string]*term.Term{}, violSeen: map[string]bool{},
		Funcs: map[string]bool{}, ModelsUsed: map[string]bool{}, fnIDs: map[*ssa.Function]int{},
		durStrs: map[*term.Term]*term.Term{},
		promoted: map[ssa.Instruction]bool{}, RaceInstrs: map[ssa.Instruction]bool{}, Races: map[string]string{}, RaceCheck: true,
	}
	e.objKeys = append(e.objKeys, objKey{})
	e.threadKeys = append(e.threadKeys, threadKey{})
	registerIntrinsics(e)
	for _, f := range moreIntrinsics {
		f(e)
	}
	return e
}

func (e *Engine) internObj(k objKey) ObjID {
	if id, ok := e.objIDs[k]; ok {
		return id
	}
	id := ObjID(len(e.objKeys))
	e.objKeys = append(e.objKeys, k)
	e.objIDs[k] = id
	return id
}

func (e *Engine) internThread(k threadKey) ThreadID {
	if id, ok := e.threadIDs[k]; ok {
		return id
	}
	id := ThreadID(len(e.threadKeys))
	e.threadKeys = append(e.threadKeys, k)
	e.threadIDs[k] = id
	return id
}

func (e *Engine) threadName(id ThreadID) string {
	if id == 1 {
		return "main"
	}
	k := e.threadKeys[id]
	return fmt.Sprintf("%s/go@%s#%d", e.threadName(k.parent), k.site, k.n)
}

func (e *Engine) fnID(f *ssa.Function) int {
	if id, ok := e.fnIDs[f]; ok {
		return id
	}
	id := len(e.fnIDs) + 1
	e.fnIDs[f] = id
	return id
}

func (e *Engine) noteFunction(f *ssa.Function) {
	if f.Pkg == nil && f.Synthetic != "" {
		return
	}
	e.Funcs[f.String()] = true
}

// ---------------------------------------------------------------- solver glue

// check returns 1 sat, 2 unsat, 0 unknown.
func (e *Engine) check(conj ...*term.Term) int {
	r := e.Solver.Check(conj...)
	switch r {
	case smt.Sat:
		return 1
	case smt.Unsat:
		return 2
	}
	e.Inconclusive = append(e.Inconclusive, "solver unknown: "+e.Solver.LastErr)
	return 0
}

// checkModel is check with a fresh solver call, so that model() may follow.
func (e *Engine) checkModel(conj ...*term.Term) int {
	r := e.Solver.CheckModel(conj...)
	switch r {
	case smt.Sat:
		return 1
	case smt.Unsat:
		return 2
	}
	e.Inconclusive = append(e.Inconclusive, "solver unknown: "+e.Solver.LastErr)
	return 0
}

func (e *Engine) model(vars []*term.Term) map[*term.Term]*term.Term {
	m, err := e.Solver.Model(vars)
	if err != nil {
		e.Inconclusive = append(e.Inconclusive, "model: "+err.Error())
		return nil
	}
	return m
}

// probeVar returns a variable constrained (permanently) to equal t, so its value can be read from models.
func (e *Engine) probeVar(t *term.Term) *term.Term {
	if t.Op == term.OpVar {
		return t
	}
	if v, ok := e.probes[t]; ok {
		return v
	}
	v := term.Var(fmt.Sprintf("probe!%d", t.ID), t.Sort)
	e.probes[t] = v
	e.Solver.Assert(term.Eq(v, t))
	return v
}

func (e *Engine) needBytesAxiom(n int) {
	// injectivity of str_of_bytes_n is applied syntactically by term.Eq; no quantified axiom is sent
	e.bytesAx[n] = true
}

// ---------------------------------------------------------------- globals and package initialisation

func (e *Engine) globalObj(st *State, g *ssa.Global) ObjID {
	id, ok := e.globals[g]
	if !ok {
		abort("UNMODELLED", "global %s of package %s that was not initialised", g.Name(), g.Pkg.Pkg.Path())
	}
	return id
}

// ZeroOnly lists packages whose globals are allocated (zero values) but whose initialisers do not run.
var ZeroOnly = map[string]bool{"time": true}

// InitPackages allocates the globals of the listed packages and runs their init functions
// (calls into init functions of packages outside the list are skipped).
func (e *Engine) InitPackages(st *State, paths []string) {
	var pkgs []*ssa.Package
	for _, p := range e.prog.AllPackages() {
		for _, w := range paths {
			if p.Pkg.Path() == w || (strings.HasSuffix(w, "/...") && strings.HasPrefix(p.Pkg.Path(), strings.TrimSuffix(w, "...")[:len(w)-4])) {
				pkgs = append(pkgs, p)
				if !ZeroOnly[p.Pkg.Path()] {
					e.initPkgs[p.Pkg.Path()] = true
				}
			}
		}
	}
	sort.Slice(pkgs, func(i, j int) bool { return pkgs[i].Pkg.Path() < pkgs[j].Pkg.Path() })
	main := st.Threads[0]
	for _, p := range pkgs {
		var names []string
		for n, m := range p.Members {
			if _, ok := m.(*ssa.Global); ok {
				names = append(names, n)
			}
		}
		sort.Strings(names)
		for _, n := range names {
			g := p.Members[n].(*ssa.Global)
			t := g.Type().Underlying().(*types.Pointer).Elem()
			id := e.internObj(objKey{0, len(e.globals) + 1, "global:" + p.Pkg.Path() + "." + n})
			e.globals[g] = id
			st.setObj(id, &Object{Kind: OMem, Cells: appendZero(nil, t), T: t, Site: "global " + n, ep: st.ep})
		}
	}
	_ = main
}

// RunInits executes the package initialisers of the initialised packages, in dependency order.
func (e *Engine) RunInits(st *State) *State {
	done := map[*ssa.Package]bool{}
	var order []*ssa.Package
	var visit func(p *ssa.Package)
	visit = func(p *ssa.Package) {
		if done[p] {
			return
		}
		done[p] = true
		for _, imp := range p.Pkg.Imports() {
			if ip := e.prog.Package(imp); ip != nil {
				visit(ip)
			}
		}
		if e.initPkgs[p.Pkg.Path()] {
			order = append(order, p)
		}
	}
	all := e.prog.AllPackages()
	sort.Slice(all, func(i, j int) bool { return all[i].Pkg.Path() < all[j].Pkg.Path() })
	for _, p := range all {
		visit(p)
	}
	for _, p := range order {
		init := p.Func("init")
		if init == nil || init.Blocks == nil {
			continue
		}
		st = e.runSequentialCall(st, init, "init of "+p.Pkg.Path())
	}
	return st
}

// runSequentialCall runs fn() on the main thread to completion; it must neither fork nor block.
func (e *Engine) runSequentialCall(st *State, fn *ssa.Function, what string) *State {
	th := st.threadW(0)
	th.Exited = false
	e.callFunction(st, th, &Closure{Fn: fn}, nil, nil, FQuiesce)
	depth := len(th.Frames)
	if e.TraceExec {
		fmt.Fprintf(e.Log, "== %s\n", what)
	}
	for {
		th = st.Threads[0]
		if len(th.Frames) < depth || th.Exited {
			break
		}
		r := e.step(st, 0)
		switch r.kind {
		case stCont:
		case stExit:
			th = st.threadW(0)
			if th.Panic != nil {
				abort("INTERNAL", "%s panicked: %s %s", what, th.Panic.Msg, showValue(th.Panic.Val))
			}
			th.Exited = false
			return st
		case stVisible:
			// visible operations during init run inline (single thread)
			th = st.threadW(0)
			op := th.Pending
			th.Pending = nil
			e.fireInline(st, th, op)
		default:
			abort("INTERNAL", "%s forked or died (kind %d)", what, r.kind)
		}
	}
	return st
}
