package sym

import (
	"fmt"
	"go/constant"
	"go/token"
	"go/types"
	"strings"

	"golang.org/x/tools/go/ssa"

	"gosym/term"
)

// ---------------------------------------------------------------- control-flow signals (Go panics caught in step)

type splitChoice struct{ c *Choice }
type splitBool struct{ c *term.Term }
type splitVals struct {
	t    *term.Term
	vals []*term.Term
}
type goPanicSig struct {
	val Value
	msg string
}
type abortSig struct {
	kind string // UNMODELLED, UNWIND, INTERNAL
	msg  string
}

func abort(kind, f string, a ...interface{}) {
	panic(abortSig{kind, fmt.Sprintf(f, a...)})
}

type stepKind int

const (
	stCont stepKind = iota
	stFork
	stVisible
	stExit
	stDead
)

type stepRes struct {
	kind   stepKind
	states []*State
}

// ---------------------------------------------------------------- visible operations

type VisKind uint8

const (
	VNone VisKind = iota
	VStart
	VSend
	VRecv
	VClose
	VSelect
	VLock
	VUnlock
	VRLock
	VRUnlock
	VWLockAnnounce
	VWLockAcquire
	VWgAdd
	VWgWait
	VAtomicCall // a call executed as one atomic visible step
	VYield
	VLoad  // promoted racy cell
	VStore // promoted racy cell
)

var visNames = [...]string{"none", "start", "send", "recv", "close", "select", "lock", "unlock", "rlock", "runlock",
	"wlock-announce", "wlock-acquire", "wg.add", "wg.wait", "atomic-call", "yield", "load", "store"}

type SelCase struct {
	Send bool
	Ch   ChanRef
	Val  Value
}

type VisOp struct {
	Kind      VisKind
	Ch        ChanRef
	Val       Value
	P         Ptr
	Delta     *term.Term
	Cases     []SelCase
	Blocking  bool
	CommaOk   bool
	Fn        *ssa.Function
	Env       []Value
	Args      []Value
	Instr     ssa.Instruction // nil when from a deferred call
	FromDefer bool
	Name      string
}

func (e *Engine) pos(in ssa.Instruction) string {
	if in == nil {
		return "?"
	}
	p := e.prog.Fset.Position(in.Pos())
	if !p.IsValid() {
		if in.Parent() != nil {
			p = e.prog.Fset.Position(in.Parent().Pos())
		}
	}
	f := p.Filename
	if e.RepoRoot != "" && strings.HasPrefix(f, e.RepoRoot+"/") {
		f = f[len(e.RepoRoot)+1:]
	} else if i := strings.Index(f, "/repo/"); i >= 0 {
		f = f[i+6:]
	}
	return fmt.Sprintf("%s:%d", f, p.Line)
}

// ---------------------------------------------------------------- operand access

func (e *Engine) constValue(c *ssa.Const) Value {
	t := c.Type()
	if c.Value == nil {
		return zeroValue(t)
	}
	switch u := t.Underlying().(type) {
	case *types.Basic:
		switch {
		case u.Info()&types.IsBoolean != 0:
			return term.BoolC(constant.BoolVal(c.Value))
		case u.Info()&types.IsString != 0:
			return term.StrC(constant.StringVal(c.Value))
		case u.Info()&types.IsInteger != 0:
			w, _ := bvWidth(u)
			if v, ok := constant.Int64Val(constant.ToInt(c.Value)); ok {
				return term.BVC(w, uint64(v))
			}
			v, _ := constant.Uint64Val(constant.ToInt(c.Value))
			return term.BVC(w, v)
		case u.Info()&types.IsFloat != 0:
			f, _ := constant.Float64Val(c.Value)
			return term.F64C(f)
		}
	case *types.Interface:
		// typed constant converted to interface is done by MakeInterface; only nil reaches here
	}
	abort("UNMODELLED", "constant %v of type %v", c, t)
	return nil
}

func (e *Engine) get(st *State, fr *Frame, v ssa.Value) Value {
	switch x := v.(type) {
	case *ssa.Const:
		return e.constValue(x)
	case *ssa.Global:
		return Ptr{Obj: e.globalObj(st, x)}
	case *ssa.Function:
		return &Closure{Fn: x}
	case *ssa.Builtin:
		return &Closure{Name: "builtin:" + x.Name()}
	}
	i, ok := fr.Info.index[v]
	if !ok {
		abort("INTERNAL", "no register for %v in %v", v, fr.Fn)
	}
	r := fr.Regs[i]
	if r == nil {
		abort("INTERNAL", "unset register %s (%v) in %v", v.Name(), v, fr.Fn)
	}
	return r
}

func (e *Engine) set(st *State, th *Thread, v ssa.Value, val Value) {
	fr := st.topW(th)
	fr.Regs[fr.Info.index[v]] = val
}

// pick resolves a possibly merged value to a concrete leaf, forking the state if necessary.
func (e *Engine) pick(st *State, v Value) Value {
	c, ok := v.(*Choice)
	if !ok {
		return v
	}
	var unknown []Alt
	for _, a := range c.Alts {
		val, known := st.truth(a.G)
		if known {
			if val {
				return e.pick(st, a.V)
			}
			continue
		}
		unknown = append(unknown, a)
	}
	if len(unknown) == 1 {
		return e.pick(st, unknown[0].V)
	}
	if len(unknown) == 0 {
		abort("INTERNAL", "choice with no feasible alternative")
	}
	panic(splitChoice{c})
}

// decide resolves a Boolean term, forking if it is not determined by what is known.
func (e *Engine) decide(st *State, c *term.Term) bool {
	if v, ok := st.truth(c); ok {
		return v
	}
	panic(splitBool{c})
}

// concreteInt resolves a bit-vector term to a concrete value, forking over feasible values.
func (e *Engine) concreteInt(st *State, t *term.Term, what string) int {
	if t.IsConst() {
		return int(t.SVal())
	}
	// enumerate through ite leaves if all constant
	var leaves []*term.Term
	var collect func(x *term.Term) bool
	seen := map[*term.Term]bool{}
	collect = func(x *term.Term) bool {
		if x.IsConst() {
			if !seen[x] {
				seen[x] = true
				leaves = append(leaves, x)
			}
			return true
		}
		if x.Op == term.OpIte {
			return collect(x.Args[1]) && collect(x.Args[2])
		}
		return false
	}
	if collect(t) && len(leaves) <= 64 {
		for _, l := range leaves {
			if v, ok := st.truth(term.Eq(t, l)); ok && v {
				return int(l.SVal())
			}
		}
		panic(splitVals{t, leaves})
	}
	// ask the solver for the feasible values (bounded); check + get-value pairs form one solver session
	var vals []*term.Term
	cond := st.PC
	unlock := e.lockSolver()
	for len(vals) <= e.MaxEnum {
		pv := e.probeVar(t)
		r := e.checkModel(cond)
		if r != 1 {
			break
		}
		m := e.model([]*term.Term{pv})
		if m == nil {
			break
		}
		v := m[e.probeVar(t)]
		vals = append(vals, v)
		cond = term.And(cond, term.Not(term.Eq(t, v)))
	}
	unlock()
	if len(vals) == 0 || len(vals) > e.MaxEnum {
		abort("UNMODELLED", "cannot enumerate symbolic %s %s (found %d values)", what, t, len(vals))
	}
	if len(vals) == 1 {
		return int(vals[0].SVal())
	}
	panic(splitVals{t, vals})
}

// ---------------------------------------------------------------- memory

func (e *Engine) nilDeref(what string) {
	panic(goPanicSig{msg: "runtime error: invalid memory address or nil pointer dereference (" + what + ")"})
}

func (e *Engine) load(st *State, p Ptr, t types.Type) Value {
	if p.Obj == 0 {
		e.nilDeref("load")
	}
	o := st.obj(p.Obj)
	n := sizeOf(t)
	if p.Off < 0 || p.Off+n > len(o.Cells) {
		abort("INTERNAL", "load out of object bounds: off %d size %d len %d (%v)", p.Off, n, len(o.Cells), t)
	}
	e.noteAccess(st, p, n, false)
	if isAggregate(t) {
		return Struct(append([]Value(nil), o.Cells[p.Off:p.Off+n]...))
	}
	return o.Cells[p.Off]
}

func (e *Engine) store(st *State, p Ptr, t types.Type, v Value) {
	if p.Obj == 0 {
		e.nilDeref("store")
	}
	n := sizeOf(t)
	o := st.objW(p.Obj)
	if p.Off < 0 || p.Off+n > len(o.Cells) {
		abort("INTERNAL", "store out of object bounds: off %d size %d len %d (%v)", p.Off, n, len(o.Cells), t)
	}
	e.noteAccess(st, p, n, true)
	if isAggregate(t) {
		s, ok := v.(Struct)
		if !ok || len(s) != n {
			abort("INTERNAL", "store aggregate mismatch %T len want %d (%v)", v, n, t)
		}
		copy(o.Cells[p.Off:p.Off+n], s)
		return
	}
	o.Cells[p.Off] = v
}

func (e *Engine) newObjID(st *State, th *Thread, site string) ObjID {
	th.NAlloc++
	return e.internObj(objKey{th.ID, th.NAlloc, site})
}

func (e *Engine) allocMem(st *State, th *Thread, t types.Type, n int, site string) ObjID {
	id := e.newObjID(st, th, site)
	var cells []Value
	if n == 1 {
		cells = appendZero(nil, t)
	} else {
		one := appendZero(nil, t)
		cells = make([]Value, 0, n*len(one))
		for i := 0; i < n; i++ {
			cells = append(cells, one...)
		}
	}
	st.setObj(id, &Object{Kind: OMem, Cells: cells, T: t, Site: site, ep: st.ep})
	return id
}

// ---------------------------------------------------------------- Go-level panics

func (e *Engine) errorIface(msg string) Value {
	// runtime errors are modelled as a value of the engine's own error type
	return Iface{T: e.runtimeErrT, V: term.StrC(msg)}
}

func (e *Engine) startPanic(st *State, th *Thread, val Value, msg string, site string) {
	th.Panic = &PanicState{Val: val, Msg: msg, Site: site}
	fr := st.topW(th)
	fr.Unwind = true
}

// ---------------------------------------------------------------- the step function

// step executes the next (invisible) action of thread ti. If the next action is a
// visible operation, it fills th.Pending and reports stVisible without executing it.
func (e *Engine) step(st *State, ti int) (res stepRes) {
	defer func() {
		r := recover()
		if r == nil {
			return
		}
		switch sig := r.(type) {
		case splitChoice:
			res = e.forkChoice(st, sig.c)
		case splitBool:
			res = e.forkBool(st, sig.c)
		case splitVals:
			res = e.forkVals(st, sig.t, sig.vals)
		case goPanicSig:
			th := st.threadW(ti)
			val := sig.val
			if val == nil {
				val = e.errorIface(sig.msg)
			}
			fr := th.top()
			site := "?"
			if fr != nil && fr.Block < len(fr.Fn.Blocks) && fr.IP < len(fr.Fn.Blocks[fr.Block].Instrs) {
				site = e.pos(fr.Fn.Blocks[fr.Block].Instrs[fr.IP])
			}
			e.startPanic(st, th, val, sig.msg, site)
			res = stepRes{kind: stCont}
		case abortSig:
			if !strings.Contains(sig.msg, "\n  stack:") {
				sig.msg += "\n  stack: " + e.stackOf(st.Threads[ti])
			}
			panic(sig)
		default:
			panic(r)
		}
	}()
	e.Stats.Steps++
	th := st.threadW(ti)
	fr := th.top()
	if fr == nil {
		th.Exited = true
		return stepRes{kind: stExit}
	}
	if fr.Unwind {
		return e.unwindStep(st, th)
	}
	instr := fr.Fn.Blocks[fr.Block].Instrs[fr.IP]
	if e.TraceExec {
		fmt.Fprintf(e.Log, "  [t%d %s] %s: %s\n", th.ID, fr.Fn.Name(), e.pos(instr), instr)
	}
	e.curThread, e.curInstr = th.ID, instr
	return e.exec(st, th, fr, instr)
}

func (e *Engine) stackOf(th *Thread) string {
	var parts []string
	for i := len(th.Frames) - 1; i >= 0 && len(parts) < 8; i-- {
		f := th.Frames[i]
		p := "?"
		if f.Block < len(f.Fn.Blocks) && f.IP < len(f.Fn.Blocks[f.Block].Instrs) {
			p = e.pos(f.Fn.Blocks[f.Block].Instrs[f.IP])
		}
		parts = append(parts, f.Fn.String()+"@"+p)
	}
	return strings.Join(parts, " <- ")
}

func (e *Engine) forkChoice(st *State, c *Choice) stepRes {
	var out []*State
	for _, a := range c.Alts {
		if v, ok := st.truth(a.G); ok && !v {
			continue
		}
		if e.FeasCheck && e.check(st.PC, a.G) == 2 {
			continue
		}
		n := st.fork()
		n.assume(a.G)
		out = append(out, n)
	}
	st.Dead = true
	e.Stats.Forks += len(out)
	return stepRes{kind: stFork, states: out}
}

func (e *Engine) forkBool(st *State, c *term.Term) stepRes {
	var out []*State
	for _, pol := range []bool{true, false} {
		lit := c
		if !pol {
			lit = term.Not(c)
		}
		if e.FeasCheck {
			r := e.check(st.PC, lit)
			if r == 2 {
				continue
			}
		}
		n := st.fork()
		n.assume(lit)
		out = append(out, n)
	}
	st.Dead = true
	e.Stats.Forks += len(out)
	return stepRes{kind: stFork, states: out}
}

func (e *Engine) forkVals(st *State, t *term.Term, vals []*term.Term) stepRes {
	var out []*State
	for _, v := range vals {
		lit := term.Eq(t, v)
		if tv, ok := st.truth(lit); ok && !tv {
			continue
		}
		if e.FeasCheck && e.check(st.PC, lit) == 2 {
			continue
		}
		n := st.fork()
		n.assume(lit)
		out = append(out, n)
	}
	st.Dead = true
	e.Stats.Forks += len(out)
	return stepRes{kind: stFork, states: out}
}

// unwindStep: the top frame is unwinding because of a panic.
func (e *Engine) unwindStep(st *State, th *Thread) stepRes {
	fr := st.topW(th)
	if th.Panic != nil && th.Panic.Recovered {
		// a deferred call recovered: the remaining deferred calls run, then the function returns normally
		th.Panic = nil
		fr.Recovered = true
	}
	if fr.Recovered && th.Panic != nil {
		fr.Recovered = false // a later deferred call panicked again
	}
	if fr.Recovered {
		if len(fr.Defers) > 0 {
			return e.runTopDefer(st, th, fr)
		}
		fr.Unwind = false
		fr.Recovered = false
		if fr.Fn.Recover != nil {
			fr.Prev = fr.Block
			fr.Block = fr.Fn.Recover.Index
			fr.IP = 0
			return stepRes{kind: stCont}
		}
		// return zero values
		var results []Value
		sig := fr.Fn.Signature
		for i := 0; i < sig.Results().Len(); i++ {
			results = append(results, zeroValue(sig.Results().At(i).Type()))
		}
		e.doReturn(st, th, results)
		return stepRes{kind: stCont}
	}
	if len(fr.Defers) > 0 {
		return e.runTopDefer(st, th, fr)
	}
	// propagate to caller
	if fr.Atomic {
		th.Atomic--
	}
	th.Frames = th.Frames[:len(th.Frames)-1]
	if len(th.Frames) == 0 {
		th.Exited = true
		return stepRes{kind: stExit}
	}
	nf := st.topW(th)
	nf.Unwind = true
	return stepRes{kind: stCont}
}

// runTopDefer pops and starts the most recent deferred call of fr.
func (e *Engine) runTopDefer(st *State, th *Thread, fr *Frame) stepRes {
	d := fr.Defers[len(fr.Defers)-1]
	var fn *Closure
	var args []Value
	if d.Method != nil {
		recv := e.pick(st, d.Recv).(Iface)
		if recv.T == nil {
			fr.Defers = fr.Defers[:len(fr.Defers)-1]
			e.nilDeref("deferred method call on nil interface")
		}
		m := e.lookupMethod(recv.T, d.Method)
		fn = &Closure{Fn: m}
		args = append([]Value{recv.V}, d.Args...)
	} else {
		fn = e.pick(st, d.Fn).(*Closure)
		args = d.Args
	}
	if vis := e.visibleCall(st, th, fn, args, nil); vis != nil {
		if th.Atomic == 0 {
			vis.FromDefer = true
			e.setPending(st, th, vis)
			return stepRes{kind: stVisible}
		}
		fr.Defers = fr.Defers[:len(fr.Defers)-1]
		e.fireInline(st, th, vis)
		return stepRes{kind: stCont}
	}
	fr.Defers = fr.Defers[:len(fr.Defers)-1]
	e.callFunction(st, th, fn, args, nil, FDeferred)
	return stepRes{kind: stCont}
}

func (e *Engine) lookupMethod(t types.Type, m *types.Func) *ssa.Function {
	fn := e.prog.LookupMethod(t, m.Pkg(), m.Name())
	if fn == nil {
		abort("INTERNAL", "no method %s on %v", m.Name(), t)
	}
	return fn
}

func (e *Engine) advance(st *State, th *Thread) {
	fr := st.topW(th)
	fr.IP++
}

func (e *Engine) jump(st *State, th *Thread, to *ssa.BasicBlock) {
	fr := st.topW(th)
	if to.Index <= fr.Block {
		e.Stats.BackEdges++
		e.countLoop(st, th, fr, to)
	}
	fr.Prev = fr.Block
	fr.Block = to.Index
	fr.IP = 0
	// phi nodes: parallel assignment
	np := fr.Info.nphi[to.Index]
	if np > 0 {
		var edge int = -1
		for i, p := range to.Preds {
			if p.Index == fr.Prev {
				edge = i
				break
			}
		}
		vals := make([]Value, np)
		for i := 0; i < np; i++ {
			phi := to.Instrs[i].(*ssa.Phi)
			vals[i] = e.get(st, fr, phi.Edges[edge])
		}
		for i := 0; i < np; i++ {
			fr.Regs[fr.Info.index[to.Instrs[i].(ssa.Value)]] = vals[i]
		}
		fr.IP = np
	}
}

func (e *Engine) countLoop(st *State, th *Thread, fr *Frame, to *ssa.BasicBlock) {
	th.Blocks += 0
	fr.Loops++
	if fr.Loops > e.Unwind {
		abort("UNWIND", "loop bound %d exceeded in %s (%s)", e.Unwind, fr.Fn, e.pos(to.Instrs[0]))
	}
}

func (e *Engine) exec(st *State, th *Thread, fr *Frame, instr ssa.Instruction) stepRes {
	switch in := instr.(type) {
	case *ssa.DebugRef:
		e.advance(st, th)

	case *ssa.Alloc:
		t := in.Type().Underlying().(*types.Pointer).Elem()
		id := e.allocMem(st, th, t, 1, e.pos(in))
		e.set(st, th, in, Ptr{Obj: id})
		e.advance(st, th)

	case *ssa.BinOp:
		x, y := e.get(st, fr, in.X), e.get(st, fr, in.Y)
		e.set(st, th, in, e.binop(st, in.Op, in.X.Type(), x, y))
		e.advance(st, th)

	case *ssa.UnOp:
		if in.Op == token.ARROW {
			ch := e.pick(st, e.get(st, fr, in.X)).(ChanRef)
			op := &VisOp{Kind: VRecv, Ch: ch, CommaOk: in.CommaOk, Instr: in}
			if th.Atomic > 0 {
				e.fireInline(st, th, op)
				return stepRes{kind: stCont}
			}
			e.setPending(st, th, op)
			return stepRes{kind: stVisible}
		}
		x := e.get(st, fr, in.X)
		if in.Op == token.MUL {
			p := e.pick(st, x).(Ptr)
			if vis := e.promotedAccess(st, th, p, in, nil); vis != nil {
				e.setPending(st, th, vis)
				return stepRes{kind: stVisible}
			}
			t := in.X.Type().Underlying().(*types.Pointer).Elem()
			e.set(st, th, in, e.load(st, p, t))
		} else {
			e.set(st, th, in, e.unop(in.Op, in.X.Type(), x))
		}
		e.advance(st, th)

	case *ssa.Store:
		p := e.pick(st, e.get(st, fr, in.Addr)).(Ptr)
		v := e.get(st, fr, in.Val)
		if vis := e.promotedAccess(st, th, p, in, v); vis != nil {
			e.setPending(st, th, vis)
			return stepRes{kind: stVisible}
		}
		e.store(st, p, in.Val.Type(), v)
		e.advance(st, th)

	case *ssa.FieldAddr:
		base := e.get(st, fr, in.X)
		st0 := in.X.Type().Underlying().(*types.Pointer).Elem()
		off := layoutOf(st0).fields[in.Field]
		e.set(st, th, in, mapLeaf(base, func(v Value) Value {
			p := v.(Ptr)
			if p.Obj == 0 {
				e.nilDeref("field address")
			}
			return Ptr{p.Obj, p.Off + off}
		}))
		e.advance(st, th)

	case *ssa.Field:
		s := e.get(st, fr, in.X).(Struct)
		lt := layoutOf(in.X.Type())
		off := lt.fields[in.Field]
		ft := in.X.Type().Underlying().(*types.Struct).Field(in.Field).Type()
		n := sizeOf(ft)
		if isAggregate(ft) {
			e.set(st, th, in, Struct(append([]Value(nil), s[off:off+n]...)))
		} else {
			e.set(st, th, in, s[off])
		}
		e.advance(st, th)

	case *ssa.IndexAddr:
		base := e.pick(st, e.get(st, fr, in.X))
		idx := e.concreteInt(st, e.get(st, fr, in.Index).(*term.Term), "index")
		switch b := base.(type) {
		case Slice:
			et := in.X.Type().Underlying().(*types.Slice).Elem()
			if idx < 0 || idx >= b.Len {
				panic(goPanicSig{msg: fmt.Sprintf("runtime error: index out of range [%d] with length %d", idx, b.Len)})
			}
			e.set(st, th, in, Ptr{b.Obj, b.Off + idx*sizeOf(et)})
		case Ptr:
			at := in.X.Type().Underlying().(*types.Pointer).Elem().Underlying().(*types.Array)
			if b.Obj == 0 {
				e.nilDeref("index address")
			}
			if idx < 0 || int64(idx) >= at.Len() {
				panic(goPanicSig{msg: fmt.Sprintf("runtime error: index out of range [%d] with length %d", idx, at.Len())})
			}
			e.set(st, th, in, Ptr{b.Obj, b.Off + idx*sizeOf(at.Elem())})
		default:
			abort("INTERNAL", "IndexAddr on %T", base)
		}
		e.advance(st, th)

	case *ssa.Index:
		x := e.get(st, fr, in.X)
		idxT := e.get(st, fr, in.Index).(*term.Term)
		switch xv := x.(type) {
		case Struct: // array value
			at := in.X.Type().Underlying().(*types.Array)
			idx := e.concreteInt(st, idxT, "index")
			if idx < 0 || int64(idx) >= at.Len() {
				panic(goPanicSig{msg: "runtime error: index out of range"})
			}
			n := sizeOf(at.Elem())
			if isAggregate(at.Elem()) {
				e.set(st, th, in, Struct(append([]Value(nil), xv[idx*n:(idx+1)*n]...)))
			} else {
				e.set(st, th, in, xv[idx])
			}
		case *term.Term: // string
			e.set(st, th, in, e.stringIndex(st, xv, idxT))
		default:
			abort("INTERNAL", "Index on %T", x)
		}
		e.advance(st, th)

	case *ssa.Lookup:
		x := e.pick(st, e.get(st, fr, in.X))
		k := e.get(st, fr, in.Index)
		switch xv := x.(type) {
		case MapRef:
			mt := in.X.Type().Underlying().(*types.Map)
			v, ok := e.mapLookup(st, xv, k, mt.Elem())
			if in.CommaOk {
				e.set(st, th, in, Tuple{v, ok})
			} else {
				e.set(st, th, in, v)
			}
		case *term.Term:
			e.set(st, th, in, e.stringIndex(st, xv, k.(*term.Term)))
		default:
			abort("INTERNAL", "Lookup on %T", x)
		}
		e.advance(st, th)

	case *ssa.MapUpdate:
		m := e.pick(st, e.get(st, fr, in.Map)).(MapRef)
		if m.Obj == 0 {
			panic(goPanicSig{msg: "assignment to entry in nil map"})
		}
		e.mapUpdate(st, m, e.get(st, fr, in.Key), e.get(st, fr, in.Value))
		e.advance(st, th)

	case *ssa.MakeMap:
		id := e.newObjID(st, th, e.pos(in))
		st.setObj(id, &Object{Kind: OMap, T: in.Type(), Site: e.pos(in), ep: st.ep})
		e.set(st, th, in, MapRef{id})
		e.advance(st, th)

	case *ssa.MakeChan:
		n := e.concreteInt(st, e.get(st, fr, in.Size).(*term.Term), "channel size")
		id := e.newObjID(st, th, e.pos(in))
		st.setObj(id, &Object{Kind: OChan, Cap: n, Closed: term.False, T: in.Type(), Site: e.pos(in), ep: st.ep})
		e.set(st, th, in, ChanRef{id})
		e.advance(st, th)

	case *ssa.MakeSlice:
		l := e.concreteInt(st, e.get(st, fr, in.Len).(*term.Term), "slice length")
		c := e.concreteInt(st, e.get(st, fr, in.Cap).(*term.Term), "slice capacity")
		if l < 0 || c < l {
			panic(goPanicSig{msg: "runtime error: makeslice: len out of range"})
		}
		if c > e.MaxAlloc {
			abort("UNMODELLED", "make slice of capacity %d", c)
		}
		et := in.Type().Underlying().(*types.Slice).Elem()
		id := e.allocMem(st, th, et, c, e.pos(in))
		e.set(st, th, in, Slice{Obj: id, Off: 0, Len: l, Cap: c})
		e.advance(st, th)

	case *ssa.MakeClosure:
		fn := in.Fn.(*ssa.Function)
		env := make([]Value, len(in.Bindings))
		for i, b := range in.Bindings {
			env[i] = e.get(st, fr, b)
		}
		e.set(st, th, in, &Closure{Fn: fn, Env: env})
		e.advance(st, th)

	case *ssa.MakeInterface:
		e.set(st, th, in, Iface{T: in.X.Type(), V: e.get(st, fr, in.X)})
		e.advance(st, th)

	case *ssa.ChangeInterface:
		e.set(st, th, in, e.get(st, fr, in.X))
		e.advance(st, th)

	case *ssa.ChangeType:
		e.set(st, th, in, e.get(st, fr, in.X))
		e.advance(st, th)

	case *ssa.Convert:
		e.set(st, th, in, e.convert(st, th, in.X.Type(), in.Type(), e.get(st, fr, in.X), e.pos(in)))
		e.advance(st, th)

	case *ssa.Extract:
		t := e.get(st, fr, in.Tuple).(Tuple)
		e.set(st, th, in, t[in.Index])
		e.advance(st, th)

	case *ssa.Slice:
		e.set(st, th, in, e.sliceOp(st, th, in, fr))
		e.advance(st, th)

	case *ssa.TypeAssert:
		x := e.pick(st, e.get(st, fr, in.X)).(Iface)
		ok := false
		if x.T != nil {
			if types.IsInterface(in.AssertedType) {
				ok = types.Implements(x.T, in.AssertedType.Underlying().(*types.Interface))
			} else {
				ok = types.Identical(x.T, in.AssertedType)
			}
		}
		var res Value
		if ok {
			if types.IsInterface(in.AssertedType) {
				res = x
			} else {
				res = x.V
			}
		} else {
			res = zeroValue(in.AssertedType)
		}
		if in.CommaOk {
			e.set(st, th, in, Tuple{res, term.BoolC(ok)})
		} else {
			if !ok {
				dt := "nil"
				if x.T != nil {
					dt = x.T.String()
				}
				panic(goPanicSig{msg: fmt.Sprintf("interface conversion: interface is %s, not %s", dt, in.AssertedType)})
			}
			e.set(st, th, in, res)
		}
		e.advance(st, th)

	case *ssa.Range:
		x := e.pick(st, e.get(st, fr, in.X))
		id := e.newObjID(st, th, e.pos(in))
		switch xv := x.(type) {
		case MapRef:
			st.setObj(id, &Object{Kind: OIter, IterMap: xv.Obj, ep: st.ep})
		case *term.Term:
			if !xv.IsConst() {
				abort("UNMODELLED", "range over symbolic string")
			}
			st.setObj(id, &Object{Kind: OIter, IterStr: xv, ep: st.ep})
		default:
			abort("INTERNAL", "Range on %T", x)
		}
		e.set(st, th, in, IterRef{id})
		e.advance(st, th)

	case *ssa.Next:
		it := e.get(st, fr, in.Iter).(IterRef)
		e.set(st, th, in, e.iterNext(st, it, in))
		e.advance(st, th)

	case *ssa.Jump:
		e.jump(st, th, fr.Fn.Blocks[fr.Block].Succs[0])

	case *ssa.If:
		c := e.get(st, fr, in.Cond).(*term.Term)
		b := fr.Fn.Blocks[fr.Block]
		if e.decide(st, c) {
			e.jump(st, th, b.Succs[0])
		} else {
			e.jump(st, th, b.Succs[1])
		}

	case *ssa.Return:
		results := make([]Value, len(in.Results))
		for i, r := range in.Results {
			results[i] = e.get(st, fr, r)
		}
		e.doReturn(st, th, results)

	case *ssa.RunDefers:
		if len(fr.Defers) > 0 {
			return e.runTopDefer(st, th, st.topW(th))
		}
		e.advance(st, th)

	case *ssa.Panic:
		v := e.get(st, fr, in.X)
		if iv, ok := v.(Iface); ok && iv.T == nil {
			// go >= 1.21: panic(nil) becomes *runtime.PanicNilError
			v = Iface{T: e.panicNilT, V: Ptr{}}
		}
		e.startPanic(st, th, v, "", e.pos(in))

	case *ssa.Defer:
		d := e.makeDeferred(st, fr, in.Common(), in)
		f := st.topW(th)
		f.Defers = append(f.Defers, d)
		f.IP++

	case *ssa.Go:
		e.spawn(st, th, fr, in)
		e.advance(st, th)

	case *ssa.Send:
		ch := e.pick(st, e.get(st, fr, in.Chan)).(ChanRef)
		op := &VisOp{Kind: VSend, Ch: ch, Val: e.get(st, fr, in.X), Instr: in}
		if th.Atomic > 0 {
			e.fireInline(st, th, op)
			return stepRes{kind: stCont}
		}
		e.setPending(st, th, op)
		return stepRes{kind: stVisible}

	case *ssa.Select:
		op := &VisOp{Kind: VSelect, Blocking: in.Blocking, Instr: in}
		for _, s := range in.States {
			c := SelCase{Send: s.Dir == types.SendOnly, Ch: e.pick(st, e.get(st, fr, s.Chan)).(ChanRef)}
			if c.Send {
				c.Val = e.get(st, fr, s.Send)
			}
			op.Cases = append(op.Cases, c)
		}
		if th.Atomic > 0 {
			e.fireInline(st, th, op)
			return stepRes{kind: stCont}
		}
		e.setPending(st, th, op)
		return stepRes{kind: stVisible}

	case *ssa.Call:
		return e.execCall(st, th, fr, in)

	default:
		abort("UNMODELLED", "instruction %T: %v at %s", instr, instr, e.pos(instr))
	}
	return stepRes{kind: stCont}
}

func mapLeaf(v Value, f func(Value) Value) Value {
	if c, ok := v.(*Choice); ok {
		n := &Choice{Alts: make([]Alt, len(c.Alts))}
		for i, a := range c.Alts {
			n.Alts[i] = Alt{a.G, mapLeaf(a.V, f)}
		}
		return n
	}
	return f(v)
}

func (e *Engine) makeDeferred(st *State, fr *Frame, c *ssa.CallCommon, site ssa.Instruction) Deferred {
	d := Deferred{Site: site}
	for _, a := range c.Args {
		d.Args = append(d.Args, e.get(st, fr, a))
	}
	if c.IsInvoke() {
		d.Method = c.Method
		d.Recv = e.get(st, fr, c.Value)
	} else {
		d.Fn = e.get(st, fr, c.Value)
	}
	return d
}

// resolveCallee returns the function and the full argument list of a call.
func (e *Engine) resolveCallee(st *State, fr *Frame, c *ssa.CallCommon) (*Closure, []Value) {
	args := make([]Value, 0, len(c.Args)+1)
	var fn *Closure
	if c.IsInvoke() {
		recv := e.pick(st, e.get(st, fr, c.Value)).(Iface)
		if recv.T == nil {
			e.nilDeref("method call on nil interface: " + c.Method.Name())
		}
		fn = &Closure{Fn: e.lookupMethod(recv.T, c.Method)}
		args = append(args, recv.V)
	} else {
		fn = e.pick(st, e.get(st, fr, c.Value)).(*Closure)
	}
	for _, a := range c.Args {
		args = append(args, e.get(st, fr, a))
	}
	return fn, args
}

func (e *Engine) execCall(st *State, th *Thread, fr *Frame, in *ssa.Call) stepRes {
	fn, args := e.resolveCallee(st, fr, in.Common())
	if vis := e.visibleCall(st, th, fn, args, in); vis != nil {
		if th.Atomic == 0 {
			e.setPending(st, th, vis)
			return stepRes{kind: stVisible}
		}
		e.fireInline(st, th, vis)
		return stepRes{kind: stCont}
	}
	e.callFunction(st, th, fn, args, in, FNormal)
	return stepRes{kind: stCont}
}

// callFunction performs an invisible call: intrinsic, builtin, model or interpreted function.
// For FNormal calls from instruction `in`, the result is stored to in's register and IP advances
// when the callee returns.
func (e *Engine) callFunction(st *State, th *Thread, fn *Closure, args []Value, in *ssa.Call, kind FrameKind) {
	deliver := func(v Value) {
		if kind == FNormal && in != nil {
			fr := st.topW(th)
			if v != nil {
				fr.Regs[fr.Info.index[in]] = v
			} else if in.Type() != nil {
				if tu, ok := in.Type().(*types.Tuple); !ok || tu.Len() > 0 {
					fr.Regs[fr.Info.index[in]] = zeroValue(in.Type())
				}
			}
			fr.IP++
		}
	}
	if fn.Fn == nil {
		if strings.HasPrefix(fn.Name, "builtin:") {
			deliver(e.builtin(st, th, fn.Name[8:], args, in))
			return
		}
		if fn.Name != "" {
			abort("INTERNAL", "call of named closure %s", fn.Name)
		}
		e.nilDeref("call of nil func")
	}
	f := fn.Fn
	name := f.String()
	if o := f.Origin(); o != nil {
		name = o.String()
	}
	if intr, ok := e.intrinsics[name]; ok {
		deliver(intr(e, st, th, f, args, in))
		return
	}
	if f.Pkg != nil && f.Name() == "init" && f.Synthetic != "" && !e.initPkgs[f.Pkg.Pkg.Path()] {
		deliver(nil) // initialiser of a package outside the initialised set
		return
	}
	if m, ok := e.modelFns[name]; ok {
		f = m
	}
	if f.Blocks == nil {
		abort("UNMODELLED", "call of external function %s at %s", name, e.posOf(in))
	}
	if len(th.Frames) > e.MaxDepth {
		abort("UNWIND", "call depth %d exceeded at %s", e.MaxDepth, name)
	}
	fi := infoOf(f)
	nf := &Frame{Fn: f, Info: fi, Prev: -1, Regs: make([]Value, fi.nregs), Kind: kind, ep: st.ep}
	if len(args) != len(f.Params) {
		abort("INTERNAL", "call %s: %d args for %d params", name, len(args), len(f.Params))
	}
	copy(nf.Regs, args)
	copy(nf.Regs[len(f.Params):], fn.Env)
	if e.atomicFns[name] {
		nf.Atomic = true
		th.Atomic++
	}
	th.Frames = append(th.Frames, nf)
	e.Stats.Calls++
	e.noteFunction(f)
}

func (e *Engine) posOf(in *ssa.Call) string {
	if in == nil {
		return "(deferred)"
	}
	return e.pos(in)
}

func (e *Engine) doReturn(st *State, th *Thread, results []Value) {
	fr := th.top()
	if len(fr.Defers) > 0 && !fr.Unwind {
		// functions with defers always have RunDefers before Return
	}
	kind := fr.Kind
	if fr.Atomic {
		th.Atomic--
	}
	th.Frames = th.Frames[:len(th.Frames)-1]
	if len(th.Frames) == 0 {
		th.Exited = true
		return
	}
	if kind != FNormal {
		return // result dropped; caller continues its RunDefers / unwinding
	}
	caller := st.topW(th)
	in := caller.Fn.Blocks[caller.Block].Instrs[caller.IP]
	call, ok := in.(*ssa.Call)
	if !ok {
		abort("INTERNAL", "return to non-call instruction %v", in)
	}
	var v Value
	switch len(results) {
	case 0:
	case 1:
		v = results[0]
	default:
		v = Tuple(results)
	}
	if v != nil {
		caller.Regs[caller.Info.index[call]] = v
	}
	caller.IP++
}

func (e *Engine) spawn(st *State, th *Thread, fr *Frame, in *ssa.Go) {
	fn, args := e.resolveCallee(st, fr, in.Common())
	th.NGo++
	id := e.internThread(threadKey{th.ID, e.pos(in), th.NGo})
	bars := append(append([]spawnBar(nil), th.Bars...), spawnBar{th.ID, th.Blocks, len(th.Open)})
	nt := &Thread{ID: id, ep: st.ep, Bars: bars}
	st.Threads = append(st.Threads, nt)
	// the new thread starts with a pseudo frame that performs the call
	nt.Start = &StartCall{Fn: fn, Args: args}
	nt.Name = fmt.Sprintf("%s@%s", fn.Fn, e.pos(in))
	_ = fr
}
