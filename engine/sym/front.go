package sym

import (
	"fmt"
	"go/ast"
	"go/types"
	"os"
	"path/filepath"
	"regexp"
	"sort"
	"strings"

	"golang.org/x/tools/go/packages"
	"golang.org/x/tools/go/ssa"
	"golang.org/x/tools/go/ssa/ssautil"
)

const ModulePath = "github.com/ThreeDotsLabs/watermill"

// Overlay describes virtual files placed inside the repository.
type Overlay struct {
	Repo  string
	Files map[string][]byte // absolute virtual path -> contents
	// source (real path under /verif) of each virtual file, for native replay overlays
	Source map[string]string
}

var targetRe = regexp.MustCompile(`(?m)^//verif:target\s+(\S+)`)

// AddDir maps every .go file of dir that carries a //verif:target header into the overlay.
func (o *Overlay) AddDir(dir string) error {
	ents, err := os.ReadDir(dir)
	if err != nil {
		return err
	}
	for _, en := range ents {
		if en.IsDir() || !strings.HasSuffix(en.Name(), ".go") {
			continue
		}
		p := filepath.Join(dir, en.Name())
		b, err := os.ReadFile(p)
		if err != nil {
			return err
		}
		m := targetRe.FindSubmatch(b)
		if m == nil {
			continue
		}
		v := filepath.Join(o.Repo, string(m[1]))
		o.Files[v] = b
		o.Source[v] = p
	}
	return nil
}

type Loaded struct {
	Prog     *ssa.Program
	Pkgs     []*packages.Package
	Models   map[string]string // real function name -> model function name
	Atomic   map[string]bool   // model function names executed atomically
	LoadSecs float64
}

var modelRe = regexp.MustCompile(`//verif:model\s+(.+)$`)

// Load type-checks the repository packages matching patterns together with the overlay and builds SSA.
func Load(o *Overlay, patterns []string) (*Loaded, error) {
	cfg := &packages.Config{
		Mode:    packages.LoadAllSyntax,
		Dir:     o.Repo,
		Overlay: o.Files,
		Env:     append(os.Environ(), "GOFLAGS=-mod=readonly", "GOPROXY=off", "GOSUMDB=off", "GOTOOLCHAIN=local"),
	}
	pkgs, err := packages.Load(cfg, patterns...)
	if err != nil {
		return nil, err
	}
	var errs []string
	packages.Visit(pkgs, nil, func(p *packages.Package) {
		for _, e := range p.Errors {
			errs = append(errs, e.Error())
		}
	})
	if len(errs) > 0 {
		if len(errs) > 20 {
			errs = errs[:20]
		}
		return nil, fmt.Errorf("package errors:\n%s", strings.Join(errs, "\n"))
	}
	prog, _ := ssautil.AllPackages(pkgs, ssa.InstantiateGenerics)
	prog.Build()
	l := &Loaded{Prog: prog, Pkgs: pkgs, Models: map[string]string{}, Atomic: map[string]bool{}}
	// directives in overlay files
	packages.Visit(pkgs, nil, func(p *packages.Package) {
		for _, f := range p.Syntax {
			fn := p.Fset.Position(f.Pos()).Filename
			if _, ok := o.Files[fn]; !ok {
				continue
			}
			for _, d := range f.Decls {
				fd, ok := d.(*ast.FuncDecl)
				if !ok || fd.Doc == nil {
					continue
				}
				obj, _ := p.TypesInfo.Defs[fd.Name].(*types.Func)
				if obj == nil {
					continue
				}
				sf := prog.FuncValue(obj)
				if sf == nil {
					continue
				}
				for _, c := range fd.Doc.List {
					if m := modelRe.FindStringSubmatch(c.Text); m != nil {
						for _, real := range strings.Fields(m[1]) {
							l.Models[real] = sf.String()
						}
					}
					if strings.HasPrefix(c.Text, "//verif:atomic") {
						l.Atomic[sf.String()] = true
					}
				}
			}
		}
	})
	return l, nil
}

// Install wires the loaded program's model directives into the engine.
func (e *Engine) Install(l *Loaded) error {
	byName := map[string]*ssa.Function{}
	for f := range ssautil.AllFunctions(l.Prog) {
		byName[f.String()] = f
	}
	for real, model := range l.Models {
		f := byName[model]
		if f == nil {
			return fmt.Errorf("model function %s not found", model)
		}
		e.modelFns[real] = f
	}
	for a := range l.Atomic {
		e.atomicFns[a] = true
		e.visibleFns[a] = VAtomicCall
	}
	// engine error type
	mp := l.Prog.ImportedPackage(ModulePath + "/zzverif/models")
	if mp == nil {
		return fmt.Errorf("models package not loaded")
	}
	rt := mp.Type("RuntimeError")
	if rt == nil {
		return fmt.Errorf("models.RuntimeError missing")
	}
	e.runtimeErrT = rt.Type()
	if rty := mp.Type("RType"); rty != nil {
		e.rtypeT = rty.Type()
	}
	if rp := l.Prog.ImportedPackage("runtime"); rp != nil {
		if pn := rp.Type("PanicNilError"); pn != nil {
			e.panicNilT = types.NewPointer(pn.Type())
		}
	}
	if e.panicNilT == nil {
		e.panicNilT = e.runtimeErrT
	}
	return nil
}

// Harnesses lists functions named Harness* defined in overlay files.
func Harnesses(l *Loaded, o *Overlay) []*ssa.Function {
	var out []*ssa.Function
	for _, p := range l.Prog.AllPackages() {
		for name, m := range p.Members {
			f, ok := m.(*ssa.Function)
			if !ok || !strings.HasPrefix(name, "Harness") {
				continue
			}
			fn := l.Prog.Fset.Position(f.Pos()).Filename
			if _, ok := o.Files[fn]; ok {
				out = append(out, f)
			}
		}
	}
	sort.Slice(out, func(i, j int) bool { return out[i].String() < out[j].String() })
	return out
}
