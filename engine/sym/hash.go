package sym

import (
	"go/types"
	"hash/maphash"
	"sync"
	"sync/atomic"

	"gosym/term"
)

var hseed = maphash.MakeSeed()

func mix(h, x uint64) uint64 {
	h ^= x + 0x9e3779b97f4a7c15 + (h << 6) + (h >> 2)
	return h
}

func hashString(s string) uint64 { return maphash.String(hseed, s) }

var typeHashes sync.Map

func hashType(t types.Type) uint64 {
	if t == nil {
		return 7
	}
	if h, ok := typeHashes.Load(t); ok {
		return h.(uint64)
	}
	h := hashString(t.String())
	typeHashes.Store(t, h)
	return h
}

func (e *Engine) hashValue(v Value) uint64 {
	switch x := v.(type) {
	case nil:
		return 1
	case *term.Term:
		return mix(2, uint64(x.ID))
	case Ptr:
		return mix(mix(3, uint64(x.Obj)), uint64(x.Off))
	case Slice:
		return mix(mix(mix(mix(4, uint64(x.Obj)), uint64(x.Off)), uint64(x.Len)), uint64(x.Cap))
	case MapRef:
		return mix(5, uint64(x.Obj))
	case ChanRef:
		return mix(6, uint64(x.Obj))
	case IterRef:
		return mix(7, uint64(x.Obj))
	case *Closure:
		h := uint64(8)
		if x.Fn != nil {
			h = mix(h, uint64(e.fnID(x.Fn)))
		}
		h = mix(h, hashString(x.Name))
		for _, a := range x.Env {
			h = mix(h, e.hashValue(a))
		}
		return h
	case Iface:
		if x.T == nil {
			return 9
		}
		return mix(mix(10, hashType(x.T)), e.hashValue(x.V))
	case Struct:
		h := uint64(11)
		for _, a := range x {
			h = mix(h, e.hashValue(a))
		}
		return h
	case Tuple:
		h := uint64(12)
		for _, a := range x {
			h = mix(h, e.hashValue(a))
		}
		return h
	case *Choice:
		h := uint64(13)
		for _, a := range x.Alts {
			h = mix(mix(h, uint64(a.G.ID)), e.hashValue(a.V))
		}
		return h
	}
	return 99
}

func (e *Engine) hashObject(o *Object) uint64 {
	if h := atomic.LoadUint64(&o.hash); h != 0 {
		return h
	}
	h := uint64(o.Kind) + 100
	switch o.Kind {
	case OMem:
		for _, c := range o.Cells {
			h = mix(h, e.hashValue(c))
		}
	case OMap:
		for _, en := range o.Ents {
			h = mix(mix(mix(h, e.hashValue(en.K)), e.hashValue(en.V)), uint64(en.G.ID))
		}
	case OChan:
		h = mix(mix(h, uint64(o.Cap)), uint64(o.Closed.ID))
		for _, c := range o.Buf {
			h = mix(h, e.hashValue(c))
		}
	case OIter:
		h = mix(mix(h, uint64(o.IterMap)), uint64(o.IterIdx))
	}
	if h == 0 {
		h = 1
	}
	atomic.StoreUint64(&o.hash, h)
	return h
}

func (e *Engine) hashFrame(f *Frame) uint64 {
	if h := atomic.LoadUint64(&f.hash); h != 0 {
		return h
	}
	h := mix(mix(mix(uint64(e.fnID(f.Fn)), uint64(f.Block)), uint64(f.IP)), uint64(len(f.Defers)))
	for _, r := range f.Regs {
		h = mix(h, e.hashValue(r))
	}
	for _, d := range f.Defers {
		h = mix(h, e.hashValue(d.Fn))
		h = mix(h, e.hashValue(d.Recv))
		for _, a := range d.Args {
			h = mix(h, e.hashValue(a))
		}
	}
	if h == 0 {
		h = 1
	}
	atomic.StoreUint64(&f.hash, h)
	return h
}

func (e *Engine) hashVisOp(op *VisOp) uint64 {
	if op == nil {
		return 3
	}
	h := mix(mix(mix(uint64(op.Kind), uint64(op.Ch.Obj)), uint64(op.P.Obj)), uint64(op.P.Off))
	h = mix(h, e.hashValue(op.Val))
	if op.Delta != nil {
		h = mix(h, uint64(op.Delta.ID))
	}
	for _, c := range op.Cases {
		h = mix(mix(h, uint64(c.Ch.Obj)), e.hashValue(c.Val))
	}
	for _, a := range op.Args {
		h = mix(h, e.hashValue(a))
	}
	for _, a := range op.Env {
		h = mix(h, e.hashValue(a))
	}
	return h
}

// fingerprint hashes everything merge2 compares (threads, heap, path condition).
func (e *Engine) fingerprint(st *State) uint64 {
	h := uint64(st.PC.ID)
	for _, th := range st.Threads {
		h = mix(h, uint64(th.ID))
		for _, f := range th.Frames {
			h = mix(h, e.hashFrame(f))
		}
		h = mix(h, e.hashVisOp(th.Pending))
		if th.Start != nil {
			h = mix(h, e.hashValue(th.Start.Fn))
			for _, a := range th.Start.Args {
				h = mix(h, e.hashValue(a))
			}
		}
		if th.Panic != nil {
			h = mix(h, e.hashValue(th.Panic.Val))
		}
	}
	h = mix(h, e.heapSum(st))
	for _, q := range st.Quiesce {
		h = mix(h, e.hashValue(q))
	}
	for _, t := range st.Tags {
		h = mix(h, e.hashValue(t.Val))
	}
	if st.Clock != nil {
		h = mix(h, uint64(st.Clock.ID))
	}
	return h
}

func (e *Engine) objTerm(id ObjID, o *Object) uint64 {
	return mix(uint64(id)*0x9e3779b97f4a7c15, e.hashObject(o))
}

// heapSum is an order-independent hash of the heap: the (cached) sum of the shared base layer,
// corrected for the entries the state's overlay shadows or adds.
func (e *Engine) heapSum(st *State) uint64 {
	b := st.base
	b.once.Do(func() {
		var s uint64
		for id, o := range b.m {
			s += e.objTerm(id, o)
		}
		b.sum = s
	})
	sum := b.sum
	for id, o := range st.over {
		if bo, ok := b.m[id]; ok {
			sum -= e.objTerm(id, bo)
		}
		sum += e.objTerm(id, o)
	}
	return sum
}
