package sym

import (
	"bytes"
	"fmt"
	"go/ast"
	"go/parser"
	"go/printer"
	"go/token"
	"os"
	"sort"
	"strconv"
	"strings"
)

// InstrumentFile returns src with a call zzvrt.At("<rel>:<line>") inserted before every statement that
// starts on one of the given lines (and, for a range-over-channel loop, at the end of the loop body too).
// Used to force the solver's schedule on the natively compiled real code.
func InstrumentFile(rel string, src []byte, lines map[int]bool) ([]byte, int, error) {
	fset := token.NewFileSet()
	f, err := parser.ParseFile(fset, rel, src, parser.ParseComments)
	if err != nil {
		return nil, 0, err
	}
	n := 0
	mkAt := func(line int) ast.Stmt {
		return &ast.ExprStmt{X: &ast.CallExpr{
			Fun:  &ast.SelectorExpr{X: ast.NewIdent("zzvrt"), Sel: ast.NewIdent("At")},
			Args: []ast.Expr{&ast.BasicLit{Kind: token.STRING, Value: strconv.Quote(fmt.Sprintf("%s:%d", rel, line))}},
		}}
	}
	var rewrite func(list []ast.Stmt) []ast.Stmt
	rewrite = func(list []ast.Stmt) []ast.Stmt {
		var out []ast.Stmt
		for _, st := range list {
			line := fset.Position(st.Pos()).Line
			inner := st
			if ls, ok := st.(*ast.LabeledStmt); ok {
				inner = ls.Stmt
				line = fset.Position(inner.Pos()).Line
			}
			if lines[line] {
				if _, isLabeled := st.(*ast.LabeledStmt); !isLabeled {
					out = append(out, mkAt(line))
					n++
				}
				if rs, ok := inner.(*ast.RangeStmt); ok && rs.Body != nil {
					rs.Body.List = append(rs.Body.List, mkAt(line))
					n++
				}
				if fs, ok := inner.(*ast.ForStmt); ok && fs.Body != nil && fs.Cond == nil && fs.Init == nil && fs.Post == nil {
					_ = fs // bare for loops: the body statements are instrumented on their own lines
				}
			}
			out = append(out, st)
		}
		return out
	}
	ast.Inspect(f, func(nd ast.Node) bool {
		switch x := nd.(type) {
		case *ast.BlockStmt:
			x.List = rewrite(x.List)
		case *ast.CaseClause:
			x.Body = rewrite(x.Body)
		case *ast.CommClause:
			x.Body = rewrite(x.Body)
		}
		return true
	})
	if n == 0 {
		return src, 0, nil
	}
	// import
	imp := &ast.ImportSpec{Name: ast.NewIdent("zzvrt"), Path: &ast.BasicLit{Kind: token.STRING, Value: strconv.Quote(ModulePath + "/zzverif/vrt")}}
	decl := &ast.GenDecl{Tok: token.IMPORT, Specs: []ast.Spec{imp}}
	f.Decls = append([]ast.Decl{decl}, f.Decls...)
	f.Imports = append(f.Imports, imp)
	var buf bytes.Buffer
	cfg := printer.Config{Mode: printer.UseSpaces | printer.TabIndent, Tabwidth: 8}
	if err := cfg.Fprint(&buf, fset, f); err != nil {
		return nil, 0, err
	}
	return buf.Bytes(), n, nil
}

// InstrumentSites writes instrumented copies of the files named by sites ("rel/path.go:line") into outDir.
// virt maps repository-relative paths of overlay (harness) files to their real source. Returns rel -> new file.
func InstrumentSites(repo string, virt map[string]string, sites []string, outDir string) (map[string]string, error) {
	byFile := map[string]map[int]bool{}
	for _, s := range sites {
		i := strings.LastIndex(s, ":")
		if i < 0 {
			continue
		}
		ln, err := strconv.Atoi(s[i+1:])
		if err != nil || strings.HasPrefix(s, "/") || strings.HasPrefix(s, "zzverif/") {
			continue // positions outside the repository (std library, models) are not gated
		}
		if byFile[s[:i]] == nil {
			byFile[s[:i]] = map[int]bool{}
		}
		byFile[s[:i]][ln] = true
	}
	res := map[string]string{}
	var files []string
	for f := range byFile {
		files = append(files, f)
	}
	sort.Strings(files)
	for i, rel := range files {
		srcPath := repo + "/" + rel
		if v, ok := virt[rel]; ok {
			srcPath = v
		}
		src, err := os.ReadFile(srcPath)
		if err != nil {
			continue
		}
		out, n, err := InstrumentFile(rel, src, byFile[rel])
		if err != nil {
			return nil, fmt.Errorf("instrument %s: %v", rel, err)
		}
		if n == 0 {
			continue
		}
		dst := fmt.Sprintf("%s/instr_%d.go", outDir, i)
		if err := os.WriteFile(dst, out, 0o644); err != nil {
			return nil, err
		}
		res[rel] = dst
	}
	return res, nil
}
