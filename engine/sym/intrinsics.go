package sym

import (
	"fmt"
	"go/types"
	"math"
	"sort"
	"strings"
	"sync/atomic"

	"golang.org/x/tools/go/ssa"

	"gosym/term"
)

const vrtPath = "github.com/ThreeDotsLabs/watermill/zzverif/vrt"

type TagEntry struct {
	Name string
	Val  Value
}

func constStr(v Value, what string) string {
	t, ok := v.(*term.Term)
	if !ok || !t.IsConst() || t.Sort != term.Str {
		abort("INTERNAL", "%s must be a concrete string, got %s", what, showValue(v))
	}
	return t.S
}

func (e *Engine) symVar(label string, so term.Sort) *term.Term {
	e.mu.Lock()
	defer e.mu.Unlock()
	if v, ok := e.symVars[label]; ok {
		if v.Sort != so {
			abort("INTERNAL", "vrt label %q used with two sorts", label)
		}
		return v
	}
	v := term.Var("in!"+label, so)
	e.symVars[label] = v
	*e.symOrd = append(*e.symOrd, label)
	return v
}

func registerIntrinsics(e *Engine) {
	I := e.intrinsics
	V := e.visibleFns

	// ---- vrt
	I[vrtPath+".Bool"] = func(e *Engine, st *State, th *Thread, fn *ssa.Function, a []Value, in *ssa.Call) Value {
		return e.symVar(constStr(a[0], "label"), term.Bool)
	}
	I[vrtPath+".Int"] = func(e *Engine, st *State, th *Thread, fn *ssa.Function, a []Value, in *ssa.Call) Value {
		v := e.symVar(constStr(a[0], "label"), term.BV(64))
		lo, hi := a[1].(*term.Term), a[2].(*term.Term)
		e.assumeIn(st, term.And(term.BVCmp(term.OpSLe, lo, v), term.BVCmp(term.OpSLe, v, hi)))
		return v
	}
	I[vrtPath+".Byte"] = func(e *Engine, st *State, th *Thread, fn *ssa.Function, a []Value, in *ssa.Call) Value {
		return e.symVar(constStr(a[0], "label"), term.BV(8))
	}
	I[vrtPath+".Str"] = func(e *Engine, st *State, th *Thread, fn *ssa.Function, a []Value, in *ssa.Call) Value {
		return e.symVar(constStr(a[0], "label"), term.Str)
	}
	I[vrtPath+".F64"] = func(e *Engine, st *State, th *Thread, fn *ssa.Function, a []Value, in *ssa.Call) Value {
		v := e.symVar(constStr(a[0], "label"), term.F64)
		lo, hi := a[1].(*term.Term), a[2].(*term.Term)
		e.assumeIn(st, term.And(term.FCmp(term.OpFLe, lo, v), term.FCmp(term.OpFLe, v, hi)))
		return v
	}
	I[vrtPath+".Assume"] = func(e *Engine, st *State, th *Thread, fn *ssa.Function, a []Value, in *ssa.Call) Value {
		atomic.AddInt64(e.assumes, 1)
		e.assumeIn(st, a[0].(*term.Term))
		return nil
	}
	I[vrtPath+".Assert"] = func(e *Engine, st *State, th *Thread, fn *ssa.Function, a []Value, in *ssa.Call) Value {
		e.assertIn(st, a[0].(*term.Term), constStr(a[1], "assert label"), in)
		return nil
	}
	I[vrtPath+".Observe"] = func(e *Engine, st *State, th *Thread, fn *ssa.Function, a []Value, in *ssa.Call) Value {
		st.Obs = append(st.Obs[:len(st.Obs):len(st.Obs)], Observation{constStr(a[0], "observe label"), a[1]})
		return nil
	}
	I[vrtPath+".Tag"] = func(e *Engine, st *State, th *Thread, fn *ssa.Function, a []Value, in *ssa.Call) Value {
		st.Tags = append(st.Tags[:len(st.Tags):len(st.Tags)], TagEntry{constStr(a[0], "tag name"), a[1]})
		return nil
	}
	I[vrtPath+".MustFinish"] = func(e *Engine, st *State, th *Thread, fn *ssa.Function, a []Value, in *ssa.Call) Value {
		th.MustFinish = true
		return nil
	}
	I[vrtPath+".MayBlock"] = func(e *Engine, st *State, th *Thread, fn *ssa.Function, a []Value, in *ssa.Call) Value {
		th.MustFinish = false
		return nil
	}
	I[vrtPath+".AtQuiescence"] = func(e *Engine, st *State, th *Thread, fn *ssa.Function, a []Value, in *ssa.Call) Value {
		st.Quiesce = append(st.Quiesce[:len(st.Quiesce):len(st.Quiesce)], a[0])
		return nil
	}
	I[vrtPath+".Live"] = func(e *Engine, st *State, th *Thread, fn *ssa.Function, a []Value, in *ssa.Call) Value {
		sub := constStr(a[0], "Live pattern")
		n := 0
		for _, t := range st.Threads {
			if t.Exited || t.ID == th.ID {
				continue
			}
			if strings.Contains(e.threadEntry(t), sub) {
				n++
			}
		}
		return term.BVC(64, uint64(n))
	}
	// Inside counts the other live threads that have a frame of a function whose name contains the pattern.
	I[vrtPath+".Inside"] = func(e *Engine, st *State, th *Thread, fn *ssa.Function, a []Value, in *ssa.Call) Value {
		sub := constStr(a[0], "Inside pattern")
		n := 0
		for _, t := range st.Threads {
			if t.Exited || t.ID == th.ID {
				continue
			}
			for _, fr := range t.Frames {
				if fr.Fn != nil && strings.Contains(fr.Fn.String(), sub) {
					n++
					break
				}
			}
		}
		return term.BVC(64, uint64(n))
	}
	I[vrtPath+".Symbolic"] = func(e *Engine, st *State, th *Thread, fn *ssa.Function, a []Value, in *ssa.Call) Value {
		return term.True
	}
	I[vrtPath+".IsClosed"] = func(e *Engine, st *State, th *Thread, fn *ssa.Function, a []Value, in *ssa.Call) Value {
		// harness-side observation of a channel's closed flag (no scheduling point, no receive)
		iv := e.pick(st, a[0]).(Iface)
		ch := e.pick(st, iv.V).(ChanRef)
		if ch.Obj == 0 {
			return term.False
		}
		return st.obj(ch.Obj).Closed
	}
	I[vrtPath+".ChanLen"] = func(e *Engine, st *State, th *Thread, fn *ssa.Function, a []Value, in *ssa.Call) Value {
		iv := e.pick(st, a[0]).(Iface)
		ch := e.pick(st, iv.V).(ChanRef)
		if ch.Obj == 0 {
			return term.BVC(64, 0)
		}
		return term.BVC(64, uint64(len(st.obj(ch.Obj).Buf)))
	}
	I[vrtPath+".MutexLocked"] = func(e *Engine, st *State, th *Thread, fn *ssa.Function, a []Value, in *ssa.Call) Value {
		p := e.pick(st, a[0]).(Ptr)
		return st.obj(p.Obj).Cells[p.Off]
	}
	I[vrtPath+".TypeName"] = func(e *Engine, st *State, th *Thread, fn *ssa.Function, a []Value, in *ssa.Call) Value {
		iv := e.pick(st, a[0]).(Iface)
		if iv.T == nil {
			return term.StrC("<nil>")
		}
		return term.StrC(typeString(iv.T))
	}
	I[vrtPath+".Opaque"] = func(e *Engine, st *State, th *Thread, fn *ssa.Function, a []Value, in *ssa.Call) Value {
		// an unspecified string determined by the argument's identity
		return term.StrC("<opaque " + showValue(a[0]) + ">")
	}
	V[vrtPath+".Yield"] = VYield

	// ---- sync
	V["(*sync.Mutex).Lock"] = VLock
	V["(*sync.Mutex).Unlock"] = VUnlock
	V["(*sync.RWMutex).Lock"] = VWLockAnnounce
	V["(*sync.RWMutex).Unlock"] = VUnlock
	V["(*sync.RWMutex).RLock"] = VRLock
	V["(*sync.RWMutex).RUnlock"] = VRUnlock
	V["(*sync.WaitGroup).Add"] = VWgAdd
	V["(*sync.WaitGroup).Done"] = VWgAdd
	V["(*sync.WaitGroup).Wait"] = VWgWait

	smap := func(e *Engine, st *State, a []Value, th *Thread) MapRef {
		p := e.pick(st, a[0]).(Ptr)
		if p.Obj == 0 {
			e.nilDeref("sync.Map")
		}
		m := st.obj(p.Obj).Cells[p.Off].(MapRef)
		if m.Obj == 0 {
			id := e.newObjID(st, th, "sync.Map")
			st.setObj(id, &Object{Kind: OMap, Site: "sync.Map", ep: st.ep})
			m = MapRef{id}
			st.objW(p.Obj).Cells[p.Off] = m
		}
		return m
	}
	anyT := types.NewInterfaceType(nil, nil)
	V["(*sync.Map).Load"] = VAtomicCall
	I["(*sync.Map).Load"] = func(e *Engine, st *State, th *Thread, fn *ssa.Function, a []Value, in *ssa.Call) Value {
		v, ok := e.mapLookup(st, smap(e, st, a, th), a[1], anyT)
		return Tuple{v, ok}
	}
	V["(*sync.Map).Store"] = VAtomicCall
	I["(*sync.Map).Store"] = func(e *Engine, st *State, th *Thread, fn *ssa.Function, a []Value, in *ssa.Call) Value {
		e.mapUpdate(st, smap(e, st, a, th), a[1], a[2])
		return nil
	}
	V["(*sync.Map).LoadOrStore"] = VAtomicCall
	I["(*sync.Map).LoadOrStore"] = func(e *Engine, st *State, th *Thread, fn *ssa.Function, a []Value, in *ssa.Call) Value {
		m := smap(e, st, a, th)
		v, ok := e.mapLookup(st, m, a[1], anyT)
		if e.decide(st, ok) {
			return Tuple{v, term.True}
		}
		e.mapUpdate(st, m, a[1], a[2])
		return Tuple{a[2], term.False}
	}
	V["(*sync.Map).Delete"] = VAtomicCall
	I["(*sync.Map).Delete"] = func(e *Engine, st *State, th *Thread, fn *ssa.Function, a []Value, in *ssa.Call) Value {
		e.mapDelete(st, smap(e, st, a, th), a[1])
		return nil
	}
	V["(*sync.Map).LoadAndDelete"] = VAtomicCall
	I["(*sync.Map).LoadAndDelete"] = func(e *Engine, st *State, th *Thread, fn *ssa.Function, a []Value, in *ssa.Call) Value {
		m := smap(e, st, a, th)
		v, ok := e.mapLookup(st, m, a[1], anyT)
		e.mapDelete(st, m, a[1])
		return Tuple{v, ok}
	}

	// ---- sync/atomic typed values (value at leaf 0 of the struct)
	for _, tn := range []string{"Int32", "Int64", "Uint32", "Uint64", "Bool", "Value", "Pointer", "Uintptr"} {
		tn := tn
		pre := "(*sync/atomic." + tn + ")."
		V[pre+"Load"] = VAtomicCall
		I[pre+"Load"] = func(e *Engine, st *State, th *Thread, fn *ssa.Function, a []Value, in *ssa.Call) Value {
			p := e.pick(st, a[0]).(Ptr)
			v := st.obj(p.Obj).Cells[p.Off]
			if tn == "Bool" {
				return term.Not(term.Eq(v.(*term.Term), term.BVC(32, 0)))
			}
			return v
		}
		V[pre+"Store"] = VAtomicCall
		I[pre+"Store"] = func(e *Engine, st *State, th *Thread, fn *ssa.Function, a []Value, in *ssa.Call) Value {
			p := e.pick(st, a[0]).(Ptr)
			v := a[1]
			if tn == "Bool" {
				v = term.Ite(v.(*term.Term), term.BVC(32, 1), term.BVC(32, 0))
			}
			st.objW(p.Obj).Cells[p.Off] = v
			return nil
		}
		V[pre+"Swap"] = VAtomicCall
		I[pre+"Swap"] = func(e *Engine, st *State, th *Thread, fn *ssa.Function, a []Value, in *ssa.Call) Value {
			p := e.pick(st, a[0]).(Ptr)
			old := st.obj(p.Obj).Cells[p.Off]
			v := a[1]
			if tn == "Bool" {
				v = term.Ite(v.(*term.Term), term.BVC(32, 1), term.BVC(32, 0))
				old = term.Not(term.Eq(old.(*term.Term), term.BVC(32, 0)))
			}
			st.objW(p.Obj).Cells[p.Off] = v
			return old
		}
		V[pre+"Add"] = VAtomicCall
		I[pre+"Add"] = func(e *Engine, st *State, th *Thread, fn *ssa.Function, a []Value, in *ssa.Call) Value {
			p := e.pick(st, a[0]).(Ptr)
			n := term.BVBin(term.OpAdd, st.obj(p.Obj).Cells[p.Off].(*term.Term), a[1].(*term.Term))
			st.objW(p.Obj).Cells[p.Off] = n
			return n
		}
		V[pre+"CompareAndSwap"] = VAtomicCall
		I[pre+"CompareAndSwap"] = func(e *Engine, st *State, th *Thread, fn *ssa.Function, a []Value, in *ssa.Call) Value {
			p := e.pick(st, a[0]).(Ptr)
			cur := st.obj(p.Obj).Cells[p.Off]
			old, nw := a[1], a[2]
			if tn == "Bool" {
				old = term.Ite(old.(*term.Term), term.BVC(32, 1), term.BVC(32, 0))
				nw = term.Ite(nw.(*term.Term), term.BVC(32, 1), term.BVC(32, 0))
			}
			eq := e.valuesEqual(cur, old)
			if e.decide(st, eq) {
				st.objW(p.Obj).Cells[p.Off] = nw
				return term.True
			}
			return term.False
		}
	}
	// function-style atomics
	for _, tn := range []string{"Int32", "Int64", "Uint32", "Uint64", "Pointer", "Uintptr"} {
		V["sync/atomic.Load"+tn] = VAtomicCall
		I["sync/atomic.Load"+tn] = func(e *Engine, st *State, th *Thread, fn *ssa.Function, a []Value, in *ssa.Call) Value {
			p := e.pick(st, a[0]).(Ptr)
			return st.obj(p.Obj).Cells[p.Off]
		}
		V["sync/atomic.Store"+tn] = VAtomicCall
		I["sync/atomic.Store"+tn] = func(e *Engine, st *State, th *Thread, fn *ssa.Function, a []Value, in *ssa.Call) Value {
			p := e.pick(st, a[0]).(Ptr)
			st.objW(p.Obj).Cells[p.Off] = a[1]
			return nil
		}
		V["sync/atomic.Add"+tn] = VAtomicCall
		I["sync/atomic.Add"+tn] = func(e *Engine, st *State, th *Thread, fn *ssa.Function, a []Value, in *ssa.Call) Value {
			p := e.pick(st, a[0]).(Ptr)
			n := term.BVBin(term.OpAdd, st.obj(p.Obj).Cells[p.Off].(*term.Term), a[1].(*term.Term))
			st.objW(p.Obj).Cells[p.Off] = n
			return n
		}
		V["sync/atomic.CompareAndSwap"+tn] = VAtomicCall
		I["sync/atomic.CompareAndSwap"+tn] = func(e *Engine, st *State, th *Thread, fn *ssa.Function, a []Value, in *ssa.Call) Value {
			p := e.pick(st, a[0]).(Ptr)
			eq := e.valuesEqual(st.obj(p.Obj).Cells[p.Off], a[1])
			if e.decide(st, eq) {
				st.objW(p.Obj).Cells[p.Off] = a[2]
				return term.True
			}
			return term.False
		}
	}

	// ---- runtime
	I["runtime.Callers"] = func(e *Engine, st *State, th *Thread, fn *ssa.Function, a []Value, in *ssa.Call) Value {
		return term.BVC(64, 0)
	}
	I["runtime/debug.Stack"] = func(e *Engine, st *State, th *Thread, fn *ssa.Function, a []Value, in *ssa.Call) Value {
		return Slice{}
	}
	I["runtime.Gosched"] = func(e *Engine, st *State, th *Thread, fn *ssa.Function, a []Value, in *ssa.Call) Value {
		return nil
	}
	I["runtime.KeepAlive"] = I["runtime.Gosched"]
	I["runtime.SetFinalizer"] = I["runtime.Gosched"]

	// ---- strconv
	I["strconv.Itoa"] = func(e *Engine, st *State, th *Thread, fn *ssa.Function, a []Value, in *ssa.Call) Value {
		return e.itoa(st, a[0].(*term.Term))
	}
	I["strconv.FormatInt"] = func(e *Engine, st *State, th *Thread, fn *ssa.Function, a []Value, in *ssa.Call) Value {
		if b := a[1].(*term.Term); !b.IsConst() || b.SVal() != 10 {
			abort("UNMODELLED", "strconv.FormatInt base != 10")
		}
		return e.itoa(st, a[0].(*term.Term))
	}
	I["strconv.Atoi"] = func(e *Engine, st *State, th *Thread, fn *ssa.Function, a []Value, in *ssa.Call) Value {
		return e.atoi(st, th, a[0].(*term.Term))
	}
	I["strconv.Quote"] = func(e *Engine, st *State, th *Thread, fn *ssa.Function, a []Value, in *ssa.Call) Value {
		return term.SConcat(term.SConcat(term.StrC("\""), a[0].(*term.Term)), term.StrC("\""))
	}

	// ---- strings (on concrete arguments) and simple symbolic ones
	I["strings.HasPrefix"] = func(e *Engine, st *State, th *Thread, fn *ssa.Function, a []Value, in *ssa.Call) Value {
		return term.SPrefix(a[1].(*term.Term), a[0].(*term.Term))
	}
	I["strings.Contains"] = func(e *Engine, st *State, th *Thread, fn *ssa.Function, a []Value, in *ssa.Call) Value {
		return term.SContains(a[0].(*term.Term), a[1].(*term.Term))
	}
	I["strings.TrimLeft"] = func(e *Engine, st *State, th *Thread, fn *ssa.Function, a []Value, in *ssa.Call) Value {
		s, c := a[0].(*term.Term), a[1].(*term.Term)
		if s.IsConst() && c.IsConst() {
			return term.StrC(strings.TrimLeft(s.S, c.S))
		}
		abort("UNMODELLED", "strings.TrimLeft on symbolic string")
		return nil
	}
	I["strings.TrimPrefix"] = func(e *Engine, st *State, th *Thread, fn *ssa.Function, a []Value, in *ssa.Call) Value {
		s, c := a[0].(*term.Term), a[1].(*term.Term)
		if s.IsConst() && c.IsConst() {
			return term.StrC(strings.TrimPrefix(s.S, c.S))
		}
		abort("UNMODELLED", "strings.TrimPrefix on symbolic string")
		return nil
	}
	I["strings.Split"] = func(e *Engine, st *State, th *Thread, fn *ssa.Function, a []Value, in *ssa.Call) Value {
		s, c := a[0].(*term.Term), a[1].(*term.Term)
		if !s.IsConst() || !c.IsConst() {
			abort("UNMODELLED", "strings.Split on symbolic string")
		}
		parts := strings.Split(s.S, c.S)
		id := e.newObjID(st, th, "strings.Split")
		cells := make([]Value, len(parts))
		for i, p := range parts {
			cells[i] = term.StrC(p)
		}
		st.setObj(id, &Object{Kind: OMem, Cells: cells, ep: st.ep})
		return Slice{Obj: id, Len: len(parts), Cap: len(parts)}
	}
	I["strings.Join"] = func(e *Engine, st *State, th *Thread, fn *ssa.Function, a []Value, in *ssa.Call) Value {
		sl := e.pick(st, a[0]).(Slice)
		sep := a[1].(*term.Term)
		out := term.StrC("")
		for i := 0; i < sl.Len; i++ {
			if i > 0 {
				out = term.SConcat(out, sep)
			}
			out = term.SConcat(out, st.obj(sl.Obj).Cells[sl.Off+i].(*term.Term))
		}
		return out
	}
	I["strings.ToLower"] = func(e *Engine, st *State, th *Thread, fn *ssa.Function, a []Value, in *ssa.Call) Value {
		s := a[0].(*term.Term)
		if s.IsConst() {
			return term.StrC(strings.ToLower(s.S))
		}
		abort("UNMODELLED", "strings.ToLower on symbolic string")
		return nil
	}

	// ---- unique ids
	uid := func(e *Engine, st *State, th *Thread, fn *ssa.Function, a []Value, in *ssa.Call) Value {
		th.NAlloc++
		return term.StrC(fmt.Sprintf("uuid-%d-%d", th.ID, th.NAlloc))
	}
	I["github.com/ThreeDotsLabs/watermill.NewUUID"] = uid
	I["github.com/ThreeDotsLabs/watermill.NewShortUUID"] = uid
	I["github.com/ThreeDotsLabs/watermill.NewULID"] = uid
	I["github.com/lithammer/shortuuid/v3.New"] = uid
	I["github.com/google/uuid.NewString"] = uid
}

func typeString(t types.Type) string {
	return types.TypeString(t, func(p *types.Package) string { return p.Name() })
}

func (e *Engine) threadEntryFn(t *Thread) string {
	if len(t.Frames) > 0 {
		f := t.Frames[0].Fn
		return f.String()
	}
	return "?"
}

func (e *Engine) threadEntry(t *Thread) string {
	if len(t.Frames) > 0 {
		f := t.Frames[0].Fn
		for f.Parent() != nil {
			f = f.Parent()
		}
		return f.String() + " " + e.threadName(t.ID)
	}
	return e.threadName(t.ID)
}

func (e *Engine) itoa(st *State, t *term.Term) Value {
	if t.IsConst() {
		return term.StrC(fmt.Sprintf("%d", t.SVal()))
	}
	w := int(t.Sort.W)
	neg := term.BVCmp(term.OpSLt, t, term.BVC(w, 0))
	if v, ok := st.truth(neg); ok {
		neg = term.BoolC(v)
	}
	abs := term.Ite(neg, term.BVNeg(t), t)
	digits := term.SFromInt(term.BV2Int(abs))
	return term.Ite(neg, term.SConcat(term.StrC("-"), digits), digits)
}

// atoi models strconv.Atoi for plain decimal strings: optional sign is not modelled for symbolic input
// (strings that are not all digits yield an error).
func (e *Engine) atoi(st *State, th *Thread, s *term.Term) Value {
	n := term.SToInt(s) // -1 if not a digit string
	bad := term.ICmp(term.OpILt, n, term.IntC(0))
	if s.IsConst() {
		str := s.S
		sign := int64(1)
		if strings.HasPrefix(str, "-") {
			sign, str = -1, str[1:]
		} else if strings.HasPrefix(str, "+") {
			str = str[1:]
		}
		n2 := term.SToInt(term.StrC(str))
		if n2.IsConst() && n2.I >= 0 {
			return Tuple{term.BVC(64, uint64(sign*n2.I)), Iface{}}
		}
		return Tuple{term.BVC(64, 0), e.opaqueError("strconv.Atoi: parsing " + s.S + ": invalid syntax")}
	}
	if n.Op == term.OpBV2Int && n.Args[0].Sort.W == 64 {
		// the text is the decimal rendering of a non-negative int: parsing it gives that int back
		return Tuple{n.Args[0], Iface{}}
	}
	// values that do not fit in int64 are outside the model (assumed away)
	e.assumeIn(st, term.ICmp(term.OpILt, n, term.IntC(1<<62)))
	if e.decide(st, bad) {
		return Tuple{term.BVC(64, 0), e.opaqueError("strconv.Atoi: invalid syntax")}
	}
	return Tuple{term.Int2BV(n, 64), Iface{}}
}

func (e *Engine) opaqueError(msg string) Value {
	return Iface{T: e.runtimeErrT, V: term.StrC(msg)}
}

func (e *Engine) assumeIn(st *State, c *term.Term) {
	if c == term.True {
		return
	}
	if c == term.False {
		panic(deadSig{})
	}
	if v, ok := st.truth(c); ok {
		if !v {
			panic(deadSig{})
		}
		return
	}
	st.assume(c)
	if e.FeasCheck && e.check(st.PC) == 2 {
		panic(deadSig{})
	}
}

func (e *Engine) assertIn(st *State, c *term.Term, label string, in *ssa.Call) {
	e.Stats.Asserts++
	if c == term.True {
		return
	}
	if v, ok := st.truth(c); ok && v {
		return
	}
	e.Stats.AssertQueries++
	neg := term.And(st.PC, term.Not(c))
	e.report(st, &Violation{Kind: "assert", Label: label, Cond: neg, Site: e.posOf(in)})
	// continue under the assumption that the assertion held
	e.assumeIn(st, c)
}

// report decides whether the violation's condition is satisfiable and records it with a model.
func (e *Engine) report(st *State, v *Violation) {
	defer e.lockSolver()() // the whole check + model-reading sequence is one solver session
	e.mu.Lock()
	seenFn := func(k string) bool { return e.violSeen[k] }
	e.mu.Unlock()
	_ = seenFn
	key := v.Kind + "|" + v.Label
	if len(v.Blocked) > 0 {
		b := append([]string(nil), v.Blocked...)
		sort.Strings(b)
		key += "|" + strings.Join(b, ";")
	}
	for _, tg := range st.Tags {
		// scenario tags with concrete values distinguish findings (known-finding signatures use them)
		if t, ok := tg.Val.(*term.Term); ok && t.IsConst() {
			key += "|" + tg.Name + "=" + t.String()
		}
	}
	e.mu.Lock()
	seen := e.violSeen[key]
	e.mu.Unlock()
	if seen && !e.ReportAll {
		// already have a counterexample for this label; still must know if this one is feasible? no: one is enough
		return
	}
	e.predefine(st)
	r := e.checkModel(v.Cond)
	if r == 2 {
		return
	}
	if r == 0 {
		e.inconclusive(fmt.Sprintf("solver could not decide %s %q: %s", v.Kind, v.Label, e.Solver.LastErr))
		return
	}
	e.mu.Lock()
	if e.violSeen[key] && !e.ReportAll {
		e.mu.Unlock()
		return
	}
	e.violSeen[key] = true
	e.mu.Unlock()
	e.fillModel(st, v)
	e.mu.Lock()
	*e.viol = append(*e.viol, v)
	e.mu.Unlock()
	if e.OnViolation != nil {
		e.OnViolation(v)
	}
}

// fillModel reads the values of all harness inputs and the schedule from the solver's current model.
func (e *Engine) fillModel(st *State, v *Violation) {
	var vars []*term.Term
	e.mu.Lock()
	labels := append([]string(nil), (*e.symOrd)...)
	sort.Strings(labels)
	symv := map[string]*term.Term{}
	for _, l := range labels {
		vars = append(vars, e.symVars[l])
		symv[l] = e.symVars[l]
	}
	e.mu.Unlock()
	m := e.model(vars)
	v.Model = map[string]string{}
	v.ModelTyped = map[string]interface{}{}
	for _, l := range labels {
		if m != nil && m[symv[l]] != nil {
			v.Model[l] = m[symv[l]].String()
			v.ModelTyped[l] = typedConst(m[symv[l]])
		}
	}
	v.Tags = map[string]string{}
	for _, tg := range st.Tags {
		v.Tags[tg.Name] = e.evalShow(tg.Val)
	}
	for _, ob := range st.Obs {
		if v.Obs == nil {
			v.Obs = map[string]string{}
		}
		v.Obs[ob.Label] = e.evalShow(ob.Val)
		if v.ObsTyped == nil {
			v.ObsTyped = map[string]interface{}{}
		}
		v.ObsTyped[ob.Label] = e.evalTyped(ob.Val)
	}
	// schedule
	var steps []string
	n := st.Trace
	for n != nil {
		if n.Sel != nil {
			mv := e.model([]*term.Term{n.Sel})
			if mv != nil && mv[n.Sel] == term.True {
				n = n.A
			} else {
				n = n.B
			}
			continue
		}
		steps = append(steps, n.Step)
		for i := len(n.Gates) - 1; i >= 0; i-- {
			v.Gates = append(v.Gates, n.Gates[i])
		}
		n = n.Parent
	}
	for i, j := 0, len(steps)-1; i < j; i, j = i+1, j-1 {
		steps[i], steps[j] = steps[j], steps[i]
	}
	for i, j := 0, len(v.Gates)-1; i < j; i, j = i+1, j-1 {
		v.Gates[i], v.Gates[j] = v.Gates[j], v.Gates[i]
	}
	v.Trace = append(steps, v.Trace...)
}

// evalShow evaluates a value in the solver's current model for display.
func (e *Engine) evalShow(v Value) string {
	switch x := v.(type) {
	case *term.Term:
		if x.IsConst() {
			return x.String()
		}
		m := e.model([]*term.Term{x})
		if m == nil || m[x] == nil {
			return x.String()
		}
		return m[x].String()
	case Iface:
		if x.T == nil {
			return "nil"
		}
		return e.evalShow(x.V)
	}
	return showValue(v)
}

// noteWitness records one complete feasible run (inputs + schedule) as reachability witness.
func (e *Engine) noteWitness(st *State) {
	if st.Dead {
		return
	}
	e.Stats.Completed++
	e.mu.Lock()
	have := *e.witness != nil
	e.mu.Unlock()
	if have || !e.WitnessWanted {
		return
	}
	defer e.lockSolver()()
	e.predefine(st)
	if e.checkModel(st.PC) != 1 {
		return
	}
	w := &Violation{Kind: "witness", Label: "reachability witness", Cond: st.PC}
	e.fillModel(st, w)
	e.mu.Lock()
	if *e.witness == nil {
		*e.witness = w
	}
	e.mu.Unlock()
}

func typedConst(t *term.Term) interface{} {
	if !t.IsConst() {
		return t.String()
	}
	switch t.Sort.K {
	case term.KBool:
		return t == term.True
	case term.KBV:
		return t.SVal()
	case term.KStr:
		return t.S
	case term.KInt:
		return t.I
	case term.KF64:
		return math.Float64frombits(t.U)
	}
	return t.String()
}

func (e *Engine) evalTyped(v Value) interface{} {
	switch x := v.(type) {
	case *term.Term:
		if x.IsConst() {
			return typedConst(x)
		}
		m := e.model([]*term.Term{x})
		if m == nil || m[x] == nil {
			return x.String()
		}
		return typedConst(m[x])
	case Iface:
		if x.T == nil {
			return nil
		}
		return e.evalTyped(x.V)
	}
	return showValue(v)
}

// Signature identifies a finding independently of the concrete model: kind, label, scenario tags,
// and for deadlocks the blocked sites.
func (v *Violation) Signature() string {
	var tags []string
	for k, val := range v.Tags {
		tags = append(tags, k+"="+val)
	}
	sort.Strings(tags)
	s := v.Kind + "|" + v.Label + "|" + strings.Join(tags, ",")
	if len(v.Blocked) > 0 {
		b := append([]string(nil), v.Blocked...)
		sort.Strings(b)
		s += "|" + strings.Join(b, ";")
	}
	return s
}

// predefine sends the terms whose model values will be read (observations, tags) to the solver
// before the deciding check-sat, so that get-value can evaluate them.
func (e *Engine) predefine(st *State) {
	var walk func(v Value)
	walk = func(v Value) {
		switch x := v.(type) {
		case *term.Term:
			e.Solver.Define(x)
		case Iface:
			if x.T != nil {
				walk(x.V)
			}
		}
	}
	for _, ob := range st.Obs {
		walk(ob.Val)
	}
	for _, tg := range st.Tags {
		walk(tg.Val)
	}
}
