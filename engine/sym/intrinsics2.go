package sym

import (
	"fmt"
	"go/types"

	"golang.org/x/tools/go/ssa"

	"gosym/term"
)

func init() {
	moreIntrinsics = append(moreIntrinsics, func(e *Engine) {
		I := e.intrinsics
		I[vrtPath+".AssignIfType"] = func(e *Engine, st *State, th *Thread, fn *ssa.Function, a []Value, in *ssa.Call) Value {
			err := e.pick(st, a[0]).(Iface)
			tgt := e.pick(st, a[1]).(Iface)
			if tgt.T == nil {
				panic(goPanicSig{msg: "errors: target cannot be nil"})
			}
			pt, ok := tgt.T.Underlying().(*types.Pointer)
			if !ok {
				panic(goPanicSig{msg: "errors: target must be a non-nil pointer"})
			}
			if err.T == nil {
				return term.False
			}
			et := pt.Elem()
			p := e.pick(st, tgt.V).(Ptr)
			if types.IsInterface(et) {
				if types.Implements(err.T, et.Underlying().(*types.Interface)) {
					e.store(st, p, et, err)
					return term.True
				}
				return term.False
			}
			if types.Identical(err.T, et) {
				e.store(st, p, et, err.V)
				return term.True
			}
			return term.False
		}
		I[vrtPath+".PickStr"] = func(e *Engine, st *State, th *Thread, fn *ssa.Function, a []Value, in *ssa.Call) Value {
			c := e.symVar(constStr(a[0], "label"), term.Bool)
			return term.Ite(c, a[2].(*term.Term), a[1].(*term.Term))
		}
		I[vrtPath+".IsNonNilPointer"] = func(e *Engine, st *State, th *Thread, fn *ssa.Function, a []Value, in *ssa.Call) Value {
			iv := e.pick(st, a[0]).(Iface)
			if iv.T == nil {
				return term.False
			}
			if _, ok := iv.T.Underlying().(*types.Pointer); !ok {
				return term.False
			}
			p := e.pick(st, iv.V).(Ptr)
			return term.BoolC(p.Obj != 0)
		}
		I[vrtPath+".HashSum"] = func(e *Engine, st *State, th *Thread, fn *ssa.Function, a []Value, in *ssa.Call) Value {
			kind := constStr(a[0], "hash kind")
			sl := e.pick(st, a[1]).(Slice)
			data := make([]*term.Term, sl.Len)
			for i := range data {
				data[i] = st.obj(sl.Obj).Cells[sl.Off+i].(*term.Term)
			}
			var cells []Value
			if kind == "sha256" {
				// injective encoding: length, then the bytes themselves
				cells = append(cells, term.BVC(8, uint64(sl.Len)))
				for _, d := range data {
					cells = append(cells, d)
				}
			} else {
				for i := 0; i < 4; i++ {
					cells = append(cells, term.UF(fmt.Sprintf("%s_b%d_n%d", kind, i, sl.Len), term.BV(8), data...))
				}
			}
			id := e.newObjID(st, th, "hash.Sum")
			st.setObj(id, &Object{Kind: OMem, Cells: cells, Site: "hash.Sum", ep: st.ep})
			return Slice{Obj: id, Len: len(cells), Cap: len(cells)}
		}
		I[vrtPath+".Bound"] = func(e *Engine, st *State, th *Thread, fn *ssa.Function, a []Value, in *ssa.Call) Value {
			n := constStr(a[0], "bound name")
			if v, ok := e.Bounds[n]; ok {
				return term.BVC(64, uint64(int64(v)))
			}
			return a[1]
		}
		I[vrtPath+".Reach"] = func(e *Engine, st *State, th *Thread, fn *ssa.Function, a []Value, in *ssa.Call) Value {
			l := constStr(a[0], "reach label")
			e.mu.Lock()
			e.Reached[l] = true
			e.mu.Unlock()
			return nil
		}
		I["bytes.Equal"] = func(e *Engine, st *State, th *Thread, fn *ssa.Function, a []Value, in *ssa.Call) Value {
			x, y := e.pick(st, a[0]).(Slice), e.pick(st, a[1]).(Slice)
			if x.Len != y.Len {
				return term.False
			}
			var cs []*term.Term
			for i := 0; i < x.Len; i++ {
				cs = append(cs, term.Eq(st.obj(x.Obj).Cells[x.Off+i].(*term.Term), st.obj(y.Obj).Cells[y.Off+i].(*term.Term)))
			}
			return term.And(cs...)
		}
		// time.Now reads the symbolic clock. The clock moves (to an arbitrary later instant) only when a
		// timer fires, in time.Sleep and at vrt.Advance() calls of the harness.
		I["time.Now"] = func(e *Engine, st *State, th *Thread, fn *ssa.Function, a []Value, in *ssa.Call) Value {
			now := st.Clock
			if now == nil {
				now = term.BVC(64, 0)
			}
			// time.Time{wall: hasMonotonic, ext: now, loc: nil}
			return Struct{term.BVC(64, 1<<63), now, Ptr{}}
		}
		I[vrtPath+".Advance"] = func(e *Engine, st *State, th *Thread, fn *ssa.Function, a []Value, in *ssa.Call) Value {
			e.advanceClock(st, nil)
			return nil
		}
		I[vrtPath+".Timed"] = func(e *Engine, st *State, th *Thread, fn *ssa.Function, a []Value, in *ssa.Call) Value {
			return term.BoolC(e.Timed)
		}
		I[ModulePath+"/zzverif/models.sleepNow"] = func(e *Engine, st *State, th *Thread, fn *ssa.Function, a []Value, in *ssa.Call) Value {
			now := st.Clock
			if now == nil {
				now = term.BVC(64, 0)
			}
			e.advanceClock(st, term.BVBin(term.OpAdd, now, a[0].(*term.Term)))
			return nil
		}
	})
}

var moreIntrinsics []func(e *Engine)

// advanceClock moves the symbolic clock to a fresh instant >= the current one (and >= atLeast).
func (e *Engine) advanceClock(st *State, atLeast *term.Term) {
	// the name is a function of (thread, per-thread counter): the same in every interleaving
	name := fmt.Sprintf("clock!%d", e.nclock)
	if ti := st.threadIdx(e.curThread); ti >= 0 {
		th := st.threadW(ti)
		th.NAlloc++
		name = fmt.Sprintf("clock!t%d.%d", th.ID, th.NAlloc)
	} else {
		e.nclock++
	}
	v := term.Var(name, term.BV(64))
	last := st.Clock
	if last == nil {
		last = term.BVC(64, 0)
	}
	st.assume(term.BVCmp(term.OpULe, last, v))
	if atLeast != nil {
		st.assume(term.BVCmp(term.OpULe, atLeast, v))
	}
	st.assume(term.BVCmp(term.OpULe, v, term.BVC(64, 1<<50)))
	st.Clock = v
}
