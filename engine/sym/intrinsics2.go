package sym

import (
	"fmt"
	"go/types"

	"golang.org/x/tools/go/ssa"

	"gosym/term"
)

func init() {
	moreIntrinsics = append(moreIntrinsics, func(e *Engine) {
		I := e.intrinsics
		I[vrtPath+".AssignIfType"] = func(e *Engine, st *State, th *Thread, fn *ssa.Function, a []Value, in *ssa.Call) Value {
			err := e.pick(st, a[0]).(Iface)
			tgt := e.pick(st, a[1]).(Iface)
			if tgt.T == nil {
				panic(goPanicSig{msg: "errors: target cannot be nil"})
			}
			pt, ok := tgt.T.Underlying().(*types.Pointer)
			if !ok {
				panic(goPanicSig{msg: "errors: target must be a non-nil pointer"})
			}
			if err.T == nil {
				return term.False
			}
			et := pt.Elem()
			p := e.pick(st, tgt.V).(Ptr)
			if types.IsInterface(et) {
				if types.Implements(err.T, et.Underlying().(*types.Interface)) {
					e.store(st, p, et, err)
					return term.True
				}
				return term.False
			}
			if types.Identical(err.T, et) {
				e.store(st, p, et, err.V)
				return term.True
			}
			return term.False
		}
		I["bytes.Equal"] = func(e *Engine, st *State, th *Thread, fn *ssa.Function, a []Value, in *ssa.Call) Value {
			x, y := e.pick(st, a[0]).(Slice), e.pick(st, a[1]).(Slice)
			if x.Len != y.Len {
				return term.False
			}
			var cs []*term.Term
			for i := 0; i < x.Len; i++ {
				cs = append(cs, term.Eq(st.obj(x.Obj).Cells[x.Off+i].(*term.Term), st.obj(y.Obj).Cells[y.Off+i].(*term.Term)))
			}
			return term.And(cs...)
		}
		I["time.Now"] = func(e *Engine, st *State, th *Thread, fn *ssa.Function, a []Value, in *ssa.Call) Value {
			e.nclock++
			v := term.Var(fmt.Sprintf("clock!%d", e.nclock), term.BV(64))
			last := st.Clock
			if last == nil {
				last = term.BVC(64, 0)
			}
			// monotone, bounded clock (nanoseconds since the start of the scenario)
			st.assume(term.BVCmp(term.OpSLe, last, v))
			st.assume(term.BVCmp(term.OpSLe, v, term.BVBin(term.OpAdd, last, term.BVC(64, 1<<40))))
			st.Clock = v
			// time.Time{wall: hasMonotonic, ext: v, loc: nil}
			return Struct{term.BVC(64, 1<<63), v, Ptr{}}
		}
	})
}

var moreIntrinsics []func(e *Engine)
