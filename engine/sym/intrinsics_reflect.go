package sym

import (
	"go/types"
	"hash/fnv"

	"golang.org/x/tools/go/ssa"

	"gosym/term"
)

// reflect: only what library code on the checked paths uses.
//   reflect.TypeOf(x)        an interface value of the model type models.RType (a string naming the dynamic type):
//                            comparable with ==, String()/Name() through the model's methods
//   reflect.DeepEqual(a, b)  structural equality with reflect's nil-versus-empty distinction for slices and maps

func (e *Engine) deepEqual(st *State, a, b Value, t types.Type, depth int) *term.Term {
	if depth > 12 {
		abort("UNMODELLED", "reflect.DeepEqual: nesting deeper than 12 (cyclic value?)")
	}
	a, b = e.pick(st, a), e.pick(st, b)
	if specialLeaves(t) >= 0 {
		abort("UNMODELLED", "reflect.DeepEqual on %v", t)
	}
	switch u := t.Underlying().(type) {
	case *types.Basic:
		return e.valuesEqual(a, b)
	case *types.Pointer:
		pa, pb := a.(Ptr), b.(Ptr)
		if pa == pb {
			return term.True
		}
		if pa.Obj == 0 || pb.Obj == 0 {
			return term.False
		}
		return e.deepEqual(st, e.load(st, pa, u.Elem()), e.load(st, pb, u.Elem()), u.Elem(), depth+1)
	case *types.Slice:
		sa, sb := a.(Slice), b.(Slice)
		if (sa.Obj == 0) != (sb.Obj == 0) || sa.Len != sb.Len {
			return term.False // a nil slice and an empty non-nil slice are not deeply equal
		}
		if sa.Obj == 0 || (sa.Obj == sb.Obj && sa.Off == sb.Off) {
			return term.True
		}
		es := sizeOf(u.Elem())
		cs := make([]*term.Term, 0, sa.Len)
		for i := 0; i < sa.Len; i++ {
			cs = append(cs, e.deepEqual(st, e.load(st, Ptr{sa.Obj, sa.Off + i*es}, u.Elem()), e.load(st, Ptr{sb.Obj, sb.Off + i*es}, u.Elem()), u.Elem(), depth+1))
		}
		return term.And(cs...)
	case *types.Map:
		ma, mb := a.(MapRef), b.(MapRef)
		if (ma.Obj == 0) != (mb.Obj == 0) {
			return term.False // a nil map and an empty non-nil map are not deeply equal
		}
		if ma.Obj == 0 || ma.Obj == mb.Obj {
			return term.True
		}
		cs := []*term.Term{term.Eq(e.mapLen(st, ma), e.mapLen(st, mb))}
		for _, en := range st.obj(ma.Obj).Ents {
			v, ok := e.mapLookup(st, mb, en.K, u.Elem())
			cs = append(cs, term.Implies(en.G, term.And(ok, e.deepEqual(st, en.V, v, u.Elem(), depth+1))))
		}
		return term.And(cs...)
	case *types.Struct:
		sa, sb := a.(Struct), b.(Struct)
		lt := layoutOf(t)
		var cs []*term.Term
		for i := 0; i < u.NumFields(); i++ {
			ft := u.Field(i).Type()
			n := sizeOf(ft)
			var fa, fb Value
			if isAggregate(ft) {
				fa, fb = Struct(sa[lt.fields[i]:lt.fields[i]+n]), Struct(sb[lt.fields[i]:lt.fields[i]+n])
			} else if n == 1 {
				fa, fb = sa[lt.fields[i]], sb[lt.fields[i]]
			} else {
				continue
			}
			cs = append(cs, e.deepEqual(st, fa, fb, ft, depth+1))
		}
		return term.And(cs...)
	case *types.Array:
		sa, sb := a.(Struct), b.(Struct)
		n := sizeOf(u.Elem())
		var cs []*term.Term
		for i := 0; i < int(u.Len()); i++ {
			var ea, eb Value
			if isAggregate(u.Elem()) {
				ea, eb = Struct(sa[i*n:(i+1)*n]), Struct(sb[i*n:(i+1)*n])
			} else {
				ea, eb = sa[i], sb[i]
			}
			cs = append(cs, e.deepEqual(st, ea, eb, u.Elem(), depth+1))
		}
		return term.And(cs...)
	case *types.Interface:
		ia, ib := a.(Iface), b.(Iface)
		if ia.T == nil || ib.T == nil {
			return term.BoolC(ia.T == nil && ib.T == nil)
		}
		if !types.Identical(ia.T, ib.T) {
			return term.False
		}
		return e.deepEqual(st, ia.V, ib.V, ia.T, depth+1)
	case *types.Signature:
		ca, cb := a.(*Closure), b.(*Closure)
		return term.BoolC(ca.Fn == nil && cb.Fn == nil && ca.Name == "" && cb.Name == "")
	case *types.Chan:
		return term.BoolC(a.(ChanRef) == b.(ChanRef))
	}
	abort("UNMODELLED", "reflect.DeepEqual on %v", t)
	return nil
}

func init() {
	moreIntrinsics = append(moreIntrinsics, func(e *Engine) {
		I := e.intrinsics
		I["reflect.DeepEqual"] = func(e *Engine, st *State, th *Thread, fn *ssa.Function, a []Value, in *ssa.Call) Value {
			ia, ib := e.pick(st, a[0]).(Iface), e.pick(st, a[1]).(Iface)
			if ia.T == nil || ib.T == nil {
				return term.BoolC(ia.T == nil && ib.T == nil)
			}
			if !types.Identical(ia.T, ib.T) {
				return term.False
			}
			return e.deepEqual(st, ia.V, ib.V, ia.T, 0)
		}
		// maps.Clone: a shallow copy; a nil map stays nil
		I["maps.Clone"] = func(e *Engine, st *State, th *Thread, fn *ssa.Function, a []Value, in *ssa.Call) Value {
			m := e.pick(st, a[0]).(MapRef)
			if m.Obj == 0 {
				return MapRef{}
			}
			src := st.obj(m.Obj)
			id := e.newObjID(st, th, "maps.Clone")
			st.setObj(id, &Object{Kind: OMap, T: src.T, Site: "maps.Clone", Ents: append([]MapEnt(nil), src.Ents...), ep: st.ep})
			return MapRef{id}
		}
		// strings.IndexByte and friends end up here
		I["internal/bytealg.IndexByteString"] = func(e *Engine, st *State, th *Thread, fn *ssa.Function, a []Value, in *ssa.Call) Value {
			s, c := a[0].(*term.Term), a[1].(*term.Term)
			if !s.IsConst() || !c.IsConst() {
				abort("UNMODELLED", "IndexByte on a symbolic string")
			}
			for i := 0; i < len(s.S); i++ {
				if uint64(s.S[i]) == c.U {
					return term.BVC(64, uint64(i))
				}
			}
			return term.BVC(64, ^uint64(0))
		}
		// reflect.ValueOf(f).Pointer() for func values only: the code pointer identifies the function body (closures from
		// one literal share it whatever they captured; method values of one method share the bound wrapper) - exactly
		// what the runtime gives. The reflect.Value is a carrier {typ_: nil, ptr: the closure, flag: 0}; any other use
		// of reflect.Value stays unmodelled.
		I["reflect.ValueOf"] = func(e *Engine, st *State, th *Thread, fn *ssa.Function, a []Value, in *ssa.Call) Value {
			iv := e.pick(st, a[0]).(Iface)
			c, ok := e.pick(st, iv.V).(*Closure)
			if iv.T == nil || !ok {
				abort("UNMODELLED", "reflect.ValueOf of a non-func value")
			}
			return Struct{Ptr{}, c, term.BVC(64, 0)}
		}
		I["(reflect.Value).Pointer"] = func(e *Engine, st *State, th *Thread, fn *ssa.Function, a []Value, in *ssa.Call) Value {
			sv, ok := a[0].(Struct)
			if !ok || len(sv) != 3 {
				abort("UNMODELLED", "reflect.Value.Pointer on an unmodelled Value")
			}
			c, ok := sv[1].(*Closure)
			if !ok {
				abort("UNMODELLED", "reflect.Value.Pointer on a non-func Value")
			}
			if c.Fn == nil {
				return term.BVC(64, 0)
			}
			h := fnv.New64a()
			h.Write([]byte(c.Fn.String()))
			return term.BVC(64, h.Sum64()|1)
		}
		I["reflect.TypeOf"] = func(e *Engine, st *State, th *Thread, fn *ssa.Function, a []Value, in *ssa.Call) Value {
			iv := e.pick(st, a[0]).(Iface)
			if iv.T == nil {
				return Iface{}
			}
			if e.rtypeT == nil {
				abort("UNMODELLED", "reflect.TypeOf: models.RType not loaded")
			}
			return Iface{T: e.rtypeT, V: term.StrC(iv.T.String())}
		}
	})
}
