package sym

import (
	"fmt"
	"time"

	"golang.org/x/tools/go/ssa"

	"gosym/term"
)

const hasMonotonic = uint64(1) << 63

func init() {
	moreIntrinsics = append(moreIntrinsics, func(e *Engine) {
		I := e.intrinsics
		I[vrtPath+".FreshF64"] = func(e *Engine, st *State, th *Thread, fn *ssa.Function, a []Value, in *ssa.Call) Value {
			th.NAlloc++
			v := term.Var(fmt.Sprintf("rand!t%d.%d", th.ID, th.NAlloc), term.F64)
			st.assume(term.FCmp(term.OpFLe, a[0].(*term.Term), v))
			st.assume(term.FCmp(term.OpFLt, v, a[1].(*term.Term)))
			return v
		}
		// Duration.String / ParseDuration: concrete values are computed by the Go library itself;
		// symbolic ones are an uninterpreted inverse pair (the text format is outside every claim).
		I["(time.Duration).String"] = func(e *Engine, st *State, th *Thread, fn *ssa.Function, a []Value, in *ssa.Call) Value {
			d := a[0].(*term.Term)
			if d.IsConst() {
				return term.StrC(time.Duration(d.SVal()).String())
			}
			s := term.UF("dur_str", term.Str, d)
			defer e.lockSolver()()
			e.mu.Lock()
			e.durStrs[s] = d
			e.mu.Unlock()
			// inverse-pair axioms, instantiated for this term
			e.Solver.Assert(term.Eq(term.UF("parse_dur", term.BV(64), s), d))
			e.Solver.Assert(term.UF("parse_ok", term.Bool, s))
			e.Solver.Assert(term.Not(term.Eq(s, term.StrC(""))))
			return s
		}
		I["time.ParseDuration"] = func(e *Engine, st *State, th *Thread, fn *ssa.Function, a []Value, in *ssa.Call) Value {
			s := a[0].(*term.Term)
			if s.IsConst() {
				d, err := time.ParseDuration(s.S)
				if err != nil {
					return Tuple{term.BVC(64, 0), e.opaqueError(err.Error())}
				}
				return Tuple{term.BVC(64, uint64(d)), Iface{}}
			}
			ok := term.UF("parse_ok", term.Bool, s)
			// "" never parses
			unlock := e.lockSolver()
			defer unlock()
			e.Solver.Assert(term.Not(term.UF("parse_ok", term.Bool, term.StrC(""))))
			if e.decide(st, ok) {
				return Tuple{term.UF("parse_dur", term.BV(64), s), Iface{}}
			}
			return Tuple{term.BVC(64, 0), e.opaqueError("time: invalid duration")}
		}
		I["(time.Time).Format"] = func(e *Engine, st *State, th *Thread, fn *ssa.Function, a []Value, in *ssa.Call) Value {
			t := a[0].(Struct)
			wall, ext := t[0].(*term.Term), t[1].(*term.Term)
			layout := a[1].(*term.Term)
			if loc, ok := t[2].(Ptr); ok && loc.Obj != 0 {
				// a time in some other location than UTC: the text depends on the zone (opaque, one function per zone)
				return term.UF("time_format_in_zone", term.Str, wall, ext, layout, term.BVC(64, uint64(loc.Obj)))
			}
			if wall.IsConst() && ext.IsConst() && layout.IsConst() {
				if tt, ok := concreteTime(wall.U, ext.SVal()); ok {
					return term.StrC(tt.Format(layout.S))
				}
			}
			return term.UF("time_format", term.Str, wall, ext, layout)
		}
		I["(time.Time).In"] = func(e *Engine, st *State, th *Thread, fn *ssa.Function, a []Value, in *ssa.Call) Value {
			t := a[0].(Struct)
			loc := e.pick(st, a[1]).(Ptr)
			if loc.Obj == 0 {
				panic(goPanicSig{msg: "time: missing Location in call to Time.In"})
			}
			return Struct{t[0], t[1], loc}
		}
		// time.After / NewTimer(d).C: a channel that becomes ready at an arbitrary moment; receiving from it
		// moves the symbolic clock to at least armed+d ("timers fire no earlier than their duration").
		I[ModulePath+"/zzverif/models.timerChan"] = func(e *Engine, st *State, th *Thread, fn *ssa.Function, a []Value, in *ssa.Call) Value {
			d := a[0].(*term.Term)
			now := st.Clock
			if now == nil {
				now = term.BVC(64, 0)
			}
			id := e.newObjID(st, th, "timer")
			zero := Struct{term.BVC(64, 0), term.BVC(64, 0), Ptr{}}
			st.setObj(id, &Object{Kind: OChan, Cap: 1, Closed: term.False, Buf: []Value{zero}, Site: "timer",
				TimerAt: term.BVBin(term.OpAdd, now, d), ep: st.ep})
			return ChanRef{id}
		}
	})
}

// concreteTime rebuilds a time.Time from its wall/ext encoding (UTC).
func concreteTime(wall uint64, ext int64) (time.Time, bool) {
	const (
		nsecMask       = 1<<30 - 1
		nsecShift      = 30
		unixToInternal = (1969*365 + 1969/4 - 1969/100 + 1969/400) * 86400
		wallToInternal = (1884*365 + 1884/4 - 1884/100 + 1884/400) * 86400
	)
	nsec := int64(wall & nsecMask)
	var sec int64
	if wall&hasMonotonic != 0 {
		sec = wallToInternal + int64(wall<<1>>(nsecShift+1))
	} else {
		sec = ext
	}
	return time.Unix(sec-unixToInternal, nsec).UTC(), true
}

// time.Time model: instants produced by the engine's clock are {wall: hasMonotonic, ext: ns, loc};
// the methods below work on ext directly (no calendar arithmetic, no division by 1e9). The zero Time
// is "long ago". Calendar fields and text formats are outside every claim.
func timeNs(v Value) *term.Term {
	t := v.(Struct)
	wall, ext := t[0].(*term.Term), t[1].(*term.Term)
	if wall.IsConst() && wall.U&hasMonotonic != 0 {
		return ext
	}
	if wall.IsConst() && ext.IsConst() && wall.U == 0 && ext.U == 0 {
		return term.BVC(64, uint64(1<<63+1<<61)) // the zero Time: far in the past (negative)
	}
	abort("UNMODELLED", "time.Time value outside the clock model: wall=%s ext=%s", wall, ext)
	return nil
}

func mkTime(ns *term.Term, loc Value) Value {
	return Struct{term.BVC(64, hasMonotonic), ns, loc}
}

func init() {
	moreIntrinsics = append(moreIntrinsics, func(e *Engine) {
		I := e.intrinsics
		I["(time.Time).Add"] = func(e *Engine, st *State, th *Thread, fn *ssa.Function, a []Value, in *ssa.Call) Value {
			t := a[0].(Struct)
			return mkTime(term.BVBin(term.OpAdd, timeNs(t), a[1].(*term.Term)), t[2])
		}
		I["(time.Time).Sub"] = func(e *Engine, st *State, th *Thread, fn *ssa.Function, a []Value, in *ssa.Call) Value {
			return term.BVBin(term.OpSub, timeNs(a[0]), timeNs(a[1]))
		}
		I["(time.Time).UTC"] = func(e *Engine, st *State, th *Thread, fn *ssa.Function, a []Value, in *ssa.Call) Value {
			t := a[0].(Struct)
			wall := t[0].(*term.Term)
			if wall.IsConst() && wall.U&hasMonotonic != 0 {
				return Struct{t[0], t[1], Ptr{}}
			}
			return Struct{t[0], t[1], Ptr{}}
		}
		I["(time.Time).IsZero"] = func(e *Engine, st *State, th *Thread, fn *ssa.Function, a []Value, in *ssa.Call) Value {
			t := a[0].(Struct)
			wall, ext := t[0].(*term.Term), t[1].(*term.Term)
			if wall.IsConst() && wall.U&hasMonotonic != 0 {
				return term.False
			}
			return term.And(term.Eq(wall, term.BVC(64, 0)), term.Eq(ext, term.BVC(64, 0)))
		}
		I["(time.Time).Before"] = func(e *Engine, st *State, th *Thread, fn *ssa.Function, a []Value, in *ssa.Call) Value {
			return term.BVCmp(term.OpSLt, timeNs(a[0]), timeNs(a[1]))
		}
		I["(time.Time).After"] = func(e *Engine, st *State, th *Thread, fn *ssa.Function, a []Value, in *ssa.Call) Value {
			return term.BVCmp(term.OpSLt, timeNs(a[1]), timeNs(a[0]))
		}
		I["(time.Time).Equal"] = func(e *Engine, st *State, th *Thread, fn *ssa.Function, a []Value, in *ssa.Call) Value {
			return term.Eq(timeNs(a[0]), timeNs(a[1]))
		}
		I["(time.Time).Compare"] = func(e *Engine, st *State, th *Thread, fn *ssa.Function, a []Value, in *ssa.Call) Value {
			x, y := timeNs(a[0]), timeNs(a[1])
			return term.Ite(term.BVCmp(term.OpSLt, x, y), term.BVC(64, ^uint64(0)), term.Ite(term.Eq(x, y), term.BVC(64, 0), term.BVC(64, 1)))
		}
	})
}
