package sym

import (
	"fmt"

	"gosym/term"
)

type mergeFail struct{ why string }

func (e *Engine) mergeAll(states []*State) []*State {
	if len(states) == 1 {
		return states
	}
	if e.MergeFull {
		return e.mergeList(states)
	}
	// state matching: only identical states are joined
	groups := map[uint64][]*State{}
	var order []uint64
	for _, s := range states {
		if s.Dead {
			continue
		}
		fp := e.fingerprint(s)
		if _, ok := groups[fp]; !ok {
			order = append(order, fp)
		}
		groups[fp] = append(groups[fp], s)
	}
	var out []*State
	for _, fp := range order {
		g := groups[fp]
		if len(g) == 1 {
			out = append(out, g[0])
		} else {
			out = append(out, e.mergeList(g)...)
		}
	}
	if len(out) > 1 {
		e.Stats.Unmergeable += len(out) - 1
	}
	return out
}

func (e *Engine) mergeList(states []*State) []*State {
	var acc []*State
	for _, s := range states {
		if s.Dead {
			continue
		}
		merged := false
		for i := range acc {
			if m, ok := e.merge2(acc[i], s); ok {
				acc[i] = m
				merged = true
				break
			}
		}
		if !merged {
			if len(acc) > 0 && e.MergeFull {
				e.Stats.Unmergeable++
			}
			acc = append(acc, s)
		}
	}
	return acc
}

type merger struct {
	e    *Engine
	sel  *term.Term
	used bool
}

func (m *merger) S() *term.Term {
	if !m.e.MergeFull {
		fail("states differ (state-matching mode)")
	}
	if m.sel == nil {
		m.e.nsel++
		m.sel = term.Var(fmt.Sprintf("sel!%d", m.e.nsel), term.Bool)
	}
	m.used = true
	return m.sel
}

func (m *merger) val(a, b Value) Value {
	if a == nil {
		return b
	}
	if b == nil {
		return a
	}
	if sameValue(a, b) {
		return a
	}
	return iteValue(m.S(), a, b)
}

func (m *merger) term(a, b *term.Term) *term.Term {
	if a == b {
		return a
	}
	return term.Ite(m.S(), a, b)
}

func fail(why string) { panic(mergeFail{why}) }

// merge2 merges b into a (a is consumed). Returns ok=false when the shapes differ.
// sameState: read-only structural comparison used by the state-matching mode.
func (e *Engine) sameState(a, b *State) bool {
	if a.PC != b.PC || len(a.Threads) != len(b.Threads) || a.Clock != b.Clock || len(a.Quiesce) != len(b.Quiesce) || len(a.Tags) != len(b.Tags) {
		return false
	}
	for i := range a.Threads {
		ta, tb := a.Threads[i], b.Threads[i]
		if ta == tb {
			continue
		}
		if ta.ID != tb.ID || len(ta.Frames) != len(tb.Frames) || ta.NAlloc != tb.NAlloc || ta.NGo != tb.NGo ||
			(ta.Pending == nil) != (tb.Pending == nil) || (ta.Start == nil) != (tb.Start == nil) || (ta.Panic == nil) != (tb.Panic == nil) {
			return false
		}
		for j := range ta.Frames {
			fa, fb := ta.Frames[j], tb.Frames[j]
			if fa == fb {
				continue
			}
			if fa.Fn != fb.Fn || fa.Block != fb.Block || fa.IP != fb.IP || len(fa.Defers) != len(fb.Defers) || len(fa.Regs) != len(fb.Regs) {
				return false
			}
			for k := range fa.Regs {
				ra, rb := fa.Regs[k], fb.Regs[k]
				if ra == nil && rb == nil {
					continue
				}
				if ra == nil || rb == nil || !sameValue(ra, rb) {
					return false
				}
			}
			for k := range fa.Defers {
				da, db := fa.Defers[k], fb.Defers[k]
				if da.Method != db.Method || len(da.Args) != len(db.Args) || (da.Fn == nil) != (db.Fn == nil) || (da.Recv == nil) != (db.Recv == nil) {
					return false
				}
				if da.Fn != nil && !sameValue(da.Fn, db.Fn) {
					return false
				}
				if da.Recv != nil && !sameValue(da.Recv, db.Recv) {
					return false
				}
				for q := range da.Args {
					if !sameValue(da.Args[q], db.Args[q]) {
						return false
					}
				}
			}
		}
		if ta.Pending != nil && ta.Pending != tb.Pending && !sameVisOp(ta.Pending, tb.Pending) {
			return false
		}
		if ta.Start != nil && ta.Start != tb.Start {
			if !sameValue(ta.Start.Fn, tb.Start.Fn) || len(ta.Start.Args) != len(tb.Start.Args) {
				return false
			}
			for q := range ta.Start.Args {
				if !sameValue(ta.Start.Args[q], tb.Start.Args[q]) {
					return false
				}
			}
		}
		if ta.Panic != nil && ta.Panic != tb.Panic && !sameValue(ta.Panic.Val, tb.Panic.Val) {
			return false
		}
	}
	same := true
	cmp := func(id ObjID, ob *Object) {
		if !same {
			return
		}
		oa := a.lookupObj(id)
		if oa == ob {
			return
		}
		if oa == nil || !sameObject(oa, ob) {
			same = false
		}
	}
	b.eachObjDiff(a, cmp)
	if !same {
		return false
	}
	if a.base != b.base {
		// different layers: also every object of a must exist in b
		a.eachObj(func(id ObjID, oa *Object) {
			if same && b.lookupObj(id) == nil {
				same = false
			}
		})
		if !same {
			return false
		}
	}
	for i := range a.Quiesce {
		if !sameValue(a.Quiesce[i], b.Quiesce[i]) {
			return false
		}
	}
	for i := range a.Tags {
		if a.Tags[i].Name != b.Tags[i].Name || !sameValue(a.Tags[i].Val, b.Tags[i].Val) {
			return false
		}
	}
	return true
}

func sameVisOp(a, b *VisOp) bool {
	if a.Kind != b.Kind || a.Ch != b.Ch || a.P != b.P || a.Instr != b.Instr || a.FromDefer != b.FromDefer || a.Fn != b.Fn ||
		len(a.Cases) != len(b.Cases) || len(a.Args) != len(b.Args) || len(a.Env) != len(b.Env) || a.Delta != b.Delta {
		return false
	}
	if (a.Val == nil) != (b.Val == nil) || (a.Val != nil && !sameValue(a.Val, b.Val)) {
		return false
	}
	for i := range a.Cases {
		ca, cb := a.Cases[i], b.Cases[i]
		if ca.Ch != cb.Ch || ca.Send != cb.Send || (ca.Val == nil) != (cb.Val == nil) || (ca.Val != nil && !sameValue(ca.Val, cb.Val)) {
			return false
		}
	}
	for i := range a.Args {
		if !sameValue(a.Args[i], b.Args[i]) {
			return false
		}
	}
	for i := range a.Env {
		if !sameValue(a.Env[i], b.Env[i]) {
			return false
		}
	}
	return true
}

func sameObject(oa, ob *Object) bool {
	if oa.Kind != ob.Kind {
		return false
	}
	switch oa.Kind {
	case OMem:
		if len(oa.Cells) != len(ob.Cells) {
			return false
		}
		for i := range oa.Cells {
			if !sameValue(oa.Cells[i], ob.Cells[i]) {
				return false
			}
		}
	case OChan:
		if oa.Cap != ob.Cap || len(oa.Buf) != len(ob.Buf) || oa.Closed != ob.Closed || oa.TimerAt != ob.TimerAt {
			return false
		}
		for i := range oa.Buf {
			if !sameValue(oa.Buf[i], ob.Buf[i]) {
				return false
			}
		}
	case OIter:
		return oa.IterMap == ob.IterMap && oa.IterIdx == ob.IterIdx && oa.IterStr == ob.IterStr
	case OMap:
		if len(oa.Ents) != len(ob.Ents) {
			return false
		}
		for i := range oa.Ents {
			if oa.Ents[i].G != ob.Ents[i].G || !sameValue(oa.Ents[i].K, ob.Ents[i].K) || !sameValue(oa.Ents[i].V, ob.Ents[i].V) {
				return false
			}
		}
	}
	return true
}

func (e *Engine) merge2(a, b *State) (res *State, ok bool) {
	if !e.MergeFull {
		if e.sameState(a, b) {
			e.Stats.IdenticalMerges++
			return a, true
		}
		return nil, false
	}
	// dry structural compatibility is checked on the fly; on failure a may have been partially
	// modified, so work on a fork of a.
	n := a.fork()
	m := &merger{e: e}
	defer func() {
		if r := recover(); r != nil {
			if _, isFail := r.(mergeFail); isFail {
				if m.sel != nil && e.nsel > 0 {
					// selector number is simply skipped
				}
				res, ok = nil, false
				return
			}
			panic(r)
		}
	}()
	if len(a.Threads) != len(b.Threads) {
		fail("thread count")
	}
	// threads
	for i := range n.Threads {
		ta, tb := n.Threads[i], b.Threads[i]
		if ta == tb {
			continue
		}
		if ta.ID != tb.ID || len(ta.Frames) != len(tb.Frames) {
			fail("thread shape")
		}
		tw := n.threadW(i)
		if tb.NAlloc > tw.NAlloc {
			tw.NAlloc = tb.NAlloc
		}
		if tb.NGo > tw.NGo {
			tw.NGo = tb.NGo
		}
		for j := range tw.Frames {
			fa, fb := tw.Frames[j], tb.Frames[j]
			if fa == fb {
				continue
			}
			if fa.Fn != fb.Fn || fa.Block != fb.Block || fa.IP != fb.IP || len(fa.Defers) != len(fb.Defers) {
				fail("frame shape")
			}
			var fw *Frame
			w := func() *Frame {
				if fw == nil {
					fw = fa.clone(n.ep)
					tw.Frames[j] = fw
				}
				return fw
			}
			if fa.Prev != fb.Prev {
				// phi nodes already executed; Prev no longer matters
			}
			if fb.Loops > fa.Loops {
				w().Loops = fb.Loops
			}
			for k := range fa.Regs {
				ra, rb := fa.Regs[k], fb.Regs[k]
				if ra == nil && rb == nil {
					continue
				}
				if ra != nil && rb != nil && sameValue(ra, rb) {
					continue
				}
				w().Regs[k] = m.val(ra, rb)
			}
			for k := range fa.Defers {
				da, db := fa.Defers[k], fb.Defers[k]
				if da.Method != db.Method || len(da.Args) != len(db.Args) {
					fail("defer shape")
				}
				nd := da
				changed := false
				if da.Fn != nil || db.Fn != nil {
					if !sameValue(da.Fn, db.Fn) {
						nd.Fn = m.val(da.Fn, db.Fn)
						changed = true
					}
				}
				if da.Recv != nil || db.Recv != nil {
					if !sameValue(da.Recv, db.Recv) {
						nd.Recv = m.val(da.Recv, db.Recv)
						changed = true
					}
				}
				for q := range da.Args {
					if !sameValue(da.Args[q], db.Args[q]) {
						if !changed {
							nd.Args = append([]Value(nil), da.Args...)
						}
						nd.Args[q] = m.val(da.Args[q], db.Args[q])
						changed = true
					}
				}
				if changed {
					w().Defers[k] = nd
				}
			}
		}
		// pending op
		pa, pb := tw.Pending, tb.Pending
		if (pa == nil) != (pb == nil) {
			fail("pending")
		}
		if pa != nil && pa != pb {
			tw.Pending = m.visOp(pa, pb)
		}
		// start call
		if (tw.Start == nil) != (tb.Start == nil) {
			fail("start")
		}
		if tw.Start != nil && tw.Start != tb.Start {
			if !sameValue(tw.Start.Fn, tb.Start.Fn) || len(tw.Start.Args) != len(tb.Start.Args) {
				fail("start fn")
			}
			ns := &StartCall{Fn: tw.Start.Fn, Args: append([]Value(nil), tw.Start.Args...)}
			for q := range ns.Args {
				ns.Args[q] = m.val(tw.Start.Args[q], tb.Start.Args[q])
			}
			tw.Start = ns
		}
		if (tw.Panic == nil) != (tb.Panic == nil) {
			fail("panic state")
		}
		if tw.Panic != nil && tw.Panic != tb.Panic {
			np := *tw.Panic
			np.Val = m.val(tw.Panic.Val, tb.Panic.Val)
			tw.Panic = &np
		}
	}
	// heap
	b.eachObjDiff(n, func(id ObjID, ob *Object) {
		oa := n.lookupObj(id)
		if oa == nil {
			n.setObj(id, ob)
			return
		}
		if oa == ob {
			return
		}
		m.object(n, id, oa, ob)
	})
	// quiescence callbacks, tags
	if len(n.Quiesce) != len(b.Quiesce) {
		fail("quiesce count")
	}
	for i := range n.Quiesce {
		if !sameValue(n.Quiesce[i], b.Quiesce[i]) {
			q := append([]Value(nil), n.Quiesce...)
			q[i] = m.val(n.Quiesce[i], b.Quiesce[i])
			n.Quiesce = q
		}
	}
	if len(n.Tags) != len(b.Tags) {
		fail("tag count")
	}
	for i := range n.Tags {
		if n.Tags[i].Name != b.Tags[i].Name {
			fail("tag names")
		}
		if !sameValue(n.Tags[i].Val, b.Tags[i].Val) {
			tg := append([]TagEntry(nil), n.Tags...)
			tg[i].Val = m.val(n.Tags[i].Val, b.Tags[i].Val)
			n.Tags = tg
		}
	}
	if a.Clock != b.Clock {
		ca, cb := a.Clock, b.Clock
		if ca == nil {
			ca = term.BVC(64, 0)
		}
		if cb == nil {
			cb = term.BVC(64, 0)
		}
		n.Clock = m.term(ca, cb)
	}
	// path condition
	if a.PC != b.PC {
		ca, cb := conjuncts(a.PC), conjuncts(b.PC)
		inB := map[*term.Term]bool{}
		for _, c := range cb {
			inB[c] = true
		}
		var common, ra, rb []*term.Term
		inCommon := map[*term.Term]bool{}
		for _, c := range ca {
			if inB[c] {
				common = append(common, c)
				inCommon[c] = true
			} else {
				ra = append(ra, c)
			}
		}
		for _, c := range cb {
			if !inCommon[c] {
				rb = append(rb, c)
			}
		}
		s := m.S()
		n.PC = term.And(append(common, term.Or(term.And(append(ra, s)...), term.And(append(rb, term.Not(s))...)))...)
	}
	// known literals: keep what both agree on
	for k, v := range n.Known {
		if bv, ok := b.Known[k]; !ok || bv != v {
			if n.knownShared {
				nk := make(map[*term.Term]bool, len(n.Known))
				for a, c := range n.Known {
					nk[a] = c
				}
				n.Known = nk
				n.knownShared = false
			}
			delete(n.Known, k)
		}
	}
	if !m.used {
		e.Stats.IdenticalMerges++
		n.Trace = a.Trace
		return n, true
	}
	e.Stats.Merges++
	e.Stats.Selectors++
	n.Trace = &TraceNode{Sel: m.sel, A: a.Trace, B: b.Trace}
	return n, true
}

func conjuncts(t *term.Term) []*term.Term {
	if t.Op == term.OpAnd {
		return t.Args
	}
	if t == term.True {
		return nil
	}
	return []*term.Term{t}
}

func (m *merger) visOp(a, b *VisOp) *VisOp {
	if a.Kind != b.Kind || a.Ch != b.Ch || a.P != b.P || a.Instr != b.Instr || a.FromDefer != b.FromDefer ||
		a.Fn != b.Fn || len(a.Cases) != len(b.Cases) || len(a.Args) != len(b.Args) || len(a.Env) != len(b.Env) {
		fail("pending op shape")
	}
	n := *a
	n.Val = m.val(a.Val, b.Val)
	if a.Delta != nil {
		n.Delta = m.term(a.Delta, b.Delta)
	}
	if len(a.Cases) > 0 {
		n.Cases = append([]SelCase(nil), a.Cases...)
		for i := range n.Cases {
			if a.Cases[i].Ch != b.Cases[i].Ch || a.Cases[i].Send != b.Cases[i].Send {
				fail("select case channels")
			}
			n.Cases[i].Val = m.val(a.Cases[i].Val, b.Cases[i].Val)
		}
	}
	if len(a.Args) > 0 {
		n.Args = append([]Value(nil), a.Args...)
		for i := range n.Args {
			n.Args[i] = m.val(a.Args[i], b.Args[i])
		}
	}
	if len(a.Env) > 0 {
		n.Env = append([]Value(nil), a.Env...)
		for i := range n.Env {
			n.Env[i] = m.val(a.Env[i], b.Env[i])
		}
	}
	return &n
}

func (m *merger) object(n *State, id ObjID, oa, ob *Object) {
	if oa.Kind != ob.Kind {
		fail("object kind")
	}
	switch oa.Kind {
	case OMem:
		if len(oa.Cells) != len(ob.Cells) {
			fail("object size")
		}
		var w *Object
		for i := range oa.Cells {
			if sameValue(oa.Cells[i], ob.Cells[i]) {
				continue
			}
			if w == nil {
				w = n.objW(id)
			}
			w.Cells[i] = m.val(oa.Cells[i], ob.Cells[i])
		}
	case OChan:
		if oa.Cap != ob.Cap || len(oa.Buf) != len(ob.Buf) {
			fail("channel buffer shape")
		}
		same := oa.Closed == ob.Closed
		for i := range oa.Buf {
			if !sameValue(oa.Buf[i], ob.Buf[i]) {
				same = false
			}
		}
		if same {
			return
		}
		w := n.objW(id)
		w.Closed = m.term(oa.Closed, ob.Closed)
		for i := range w.Buf {
			w.Buf[i] = m.val(oa.Buf[i], ob.Buf[i])
		}
	case OIter:
		if oa.IterMap != ob.IterMap || oa.IterIdx != ob.IterIdx || oa.IterStr != ob.IterStr {
			fail("iterator position")
		}
	case OMap:
		same := len(oa.Ents) == len(ob.Ents)
		if same {
			for i := range oa.Ents {
				if !sameValue(oa.Ents[i].K, ob.Ents[i].K) || !sameValue(oa.Ents[i].V, ob.Ents[i].V) || oa.Ents[i].G != ob.Ents[i].G {
					same = false
					break
				}
			}
		}
		if same {
			return
		}
		// an iterator in the middle of this map pins the entry order
		positional := len(oa.Ents) == len(ob.Ents)
		if positional {
			for i := range oa.Ents {
				if !sameValue(oa.Ents[i].K, ob.Ents[i].K) {
					positional = false
					break
				}
			}
		}
		if !positional {
			n.eachObj(func(_ ObjID, o *Object) {
				if o.Kind == OIter && o.IterMap == id && o.IterIdx > 0 && o.IterIdx < len(oa.Ents) {
					fail("map reordered under an active iterator")
				}
			})
		}
		w := n.objW(id)
		usedB := make([]bool, len(ob.Ents))
		var out []MapEnt
		for _, ea := range oa.Ents {
			matched := false
			for j, eb := range ob.Ents {
				if usedB[j] || !sameValue(ea.K, eb.K) {
					continue
				}
				usedB[j] = true
				matched = true
				out = append(out, MapEnt{K: ea.K, V: m.val(ea.V, eb.V), G: m.term(ea.G, eb.G)})
				break
			}
			if !matched {
				out = append(out, MapEnt{K: ea.K, V: ea.V, G: term.And(m.S(), ea.G)})
			}
		}
		for j, eb := range ob.Ents {
			if !usedB[j] {
				out = append(out, MapEnt{K: eb.K, V: eb.V, G: term.And(term.Not(m.S()), eb.G)})
			}
		}
		w.Ents = out
	}
}
