package sym

import (
	"fmt"
	"go/token"
	"go/types"
	"strings"

	"golang.org/x/tools/go/ssa"

	"gosym/term"
)

func basicOf(t types.Type) *types.Basic {
	b, _ := t.Underlying().(*types.Basic)
	return b
}

func isSigned(t types.Type) bool {
	b := basicOf(t)
	if b == nil {
		return false
	}
	_, s := bvWidth(b)
	return s
}

// iteValue builds "if c then a else b" for arbitrary values.
func iteValue(c *term.Term, a, b Value) Value {
	if c == term.True {
		return a
	}
	if c == term.False {
		return b
	}
	if sameValue(a, b) {
		return a
	}
	switch x := a.(type) {
	case *term.Term:
		if y, ok := b.(*term.Term); ok && x.Sort == y.Sort {
			return term.Ite(c, x, y)
		}
	case Struct:
		if y, ok := b.(Struct); ok && len(x) == len(y) {
			out := make(Struct, len(x))
			for i := range x {
				out[i] = iteValue(c, x[i], y[i])
			}
			return out
		}
	case Tuple:
		if y, ok := b.(Tuple); ok && len(x) == len(y) {
			out := make(Tuple, len(x))
			for i := range x {
				out[i] = iteValue(c, x[i], y[i])
			}
			return out
		}
	case Iface:
		if y, ok := b.(Iface); ok && x.T != nil && y.T != nil && types.Identical(x.T, y.T) {
			return Iface{T: x.T, V: iteValue(c, x.V, y.V)}
		}
	}
	return mkChoice([]Alt{{c, a}, {term.Not(c), b}})
}

// mkChoice flattens nested choices and joins equal leaves.
func mkChoice(alts []Alt) Value {
	var flat []Alt
	var add func(g *term.Term, v Value)
	add = func(g *term.Term, v Value) {
		if g == term.False {
			return
		}
		if c, ok := v.(*Choice); ok {
			for _, a := range c.Alts {
				add(term.And(g, a.G), a.V)
			}
			return
		}
		for i := range flat {
			if sameValue(flat[i].V, v) {
				flat[i].G = term.Or(flat[i].G, g)
				return
			}
		}
		flat = append(flat, Alt{g, v})
	}
	for _, a := range alts {
		add(a.G, a.V)
	}
	if len(flat) == 1 {
		return flat[0].V
	}
	if len(flat) == 0 {
		panic("mkChoice: no alternatives")
	}
	return &Choice{Alts: flat}
}

// valuesEqual returns the term for a == b (Go comparison semantics).
func (e *Engine) valuesEqual(a, b Value) *term.Term {
	if ca, ok := a.(*Choice); ok {
		var ds []*term.Term
		for _, x := range ca.Alts {
			ds = append(ds, term.And(x.G, e.valuesEqual(x.V, b)))
		}
		return term.Or(ds...)
	}
	if cb, ok := b.(*Choice); ok {
		var ds []*term.Term
		for _, x := range cb.Alts {
			ds = append(ds, term.And(x.G, e.valuesEqual(a, x.V)))
		}
		return term.Or(ds...)
	}
	switch x := a.(type) {
	case *term.Term:
		y, ok := b.(*term.Term)
		if !ok {
			return term.False
		}
		if x.Sort != y.Sort {
			return term.False
		}
		if x.Sort == term.F64 {
			return term.FCmp(term.OpFEq, x, y)
		}
		return term.Eq(x, y)
	case Ptr:
		y, ok := b.(Ptr)
		return term.BoolC(ok && x == y)
	case ChanRef:
		y, ok := b.(ChanRef)
		return term.BoolC(ok && x == y)
	case MapRef:
		y, ok := b.(MapRef)
		return term.BoolC(ok && x == y)
	case Slice:
		y, ok := b.(Slice)
		return term.BoolC(ok && x.Obj == 0 && y.Obj == 0)
	case *Closure:
		y, ok := b.(*Closure)
		return term.BoolC(ok && x.Fn == nil && y.Fn == nil && x.Name == "" && y.Name == "")
	case Iface:
		y, ok := b.(Iface)
		if !ok {
			return term.False
		}
		if x.T == nil || y.T == nil {
			return term.BoolC(x.T == nil && y.T == nil)
		}
		if !types.Identical(x.T, y.T) {
			return term.False
		}
		return e.valuesEqual(x.V, y.V)
	case Struct:
		y, ok := b.(Struct)
		if !ok || len(x) != len(y) {
			return term.False
		}
		var cs []*term.Term
		for i := range x {
			cs = append(cs, e.valuesEqual(x[i], y[i]))
		}
		return term.And(cs...)
	}
	abort("INTERNAL", "valuesEqual on %T / %T", a, b)
	return nil
}

func (e *Engine) binop(st *State, op token.Token, t types.Type, x, y Value) Value {
	switch op {
	case token.EQL:
		return e.valuesEqual(x, y)
	case token.NEQ:
		return term.Not(e.valuesEqual(x, y))
	}
	a, ok1 := x.(*term.Term)
	b, ok2 := y.(*term.Term)
	if !ok1 || !ok2 {
		abort("INTERNAL", "binop %v on %T, %T", op, x, y)
	}
	switch a.Sort.K {
	case term.KBool:
		switch op {
		case token.LAND, token.AND:
			return term.And(a, b)
		case token.LOR, token.OR:
			return term.Or(a, b)
		}
	case term.KStr:
		switch op {
		case token.ADD:
			return term.SConcat(a, b)
		case token.LSS:
			return term.SLess(a, b)
		case token.GTR:
			return term.SLess(b, a)
		case token.LEQ:
			return term.Not(term.SLess(b, a))
		case token.GEQ:
			return term.Not(term.SLess(a, b))
		}
	case term.KF64:
		switch op {
		case token.ADD:
			return term.FBin(term.OpFAdd, a, b)
		case token.SUB:
			return term.FBin(term.OpFSub, a, b)
		case token.MUL:
			return term.FBin(term.OpFMul, a, b)
		case token.QUO:
			return term.FBin(term.OpFDiv, a, b)
		case token.LSS:
			return term.FCmp(term.OpFLt, a, b)
		case token.LEQ:
			return term.FCmp(term.OpFLe, a, b)
		case token.GTR:
			return term.FCmp(term.OpFLt, b, a)
		case token.GEQ:
			return term.FCmp(term.OpFLe, b, a)
		}
	case term.KBV:
		signed := isSigned(t)
		switch op {
		case token.ADD:
			return term.BVBin(term.OpAdd, a, b)
		case token.SUB:
			return term.BVBin(term.OpSub, a, b)
		case token.MUL:
			return term.BVBin(term.OpMul, a, b)
		case token.QUO, token.REM:
			zero := term.BVC(int(b.Sort.W), 0)
			if e.decide(st, term.Eq(b, zero)) {
				panic(goPanicSig{msg: "runtime error: integer divide by zero"})
			}
			var o term.Op
			switch {
			case op == token.QUO && signed:
				o = term.OpSDiv
			case op == token.QUO:
				o = term.OpUDiv
			case signed:
				o = term.OpSRem
			default:
				o = term.OpURem
			}
			return term.BVBin(o, a, b)
		case token.AND:
			return term.BVBin(term.OpBAnd, a, b)
		case token.OR:
			return term.BVBin(term.OpBOr, a, b)
		case token.XOR:
			return term.BVBin(term.OpBXor, a, b)
		case token.AND_NOT:
			return term.BVBin(term.OpBAnd, a, term.BVNot(b))
		case token.SHL, token.SHR:
			w := int(a.Sort.W)
			cnt := b
			var big *term.Term = term.False
			if int(cnt.Sort.W) > w {
				big = term.BVCmp(term.OpULe, term.BVC(int(cnt.Sort.W), uint64(w)), cnt)
				cnt = term.Resize(cnt, w, false)
			} else if int(cnt.Sort.W) < w {
				cnt = term.Resize(cnt, w, false)
			}
			var r, over *term.Term
			switch {
			case op == token.SHL:
				r = term.BVBin(term.OpShl, a, cnt)
				over = term.BVC(w, 0)
			case signed:
				r = term.BVBin(term.OpAShr, a, cnt)
				over = term.BVBin(term.OpAShr, a, term.BVC(w, uint64(w-1)))
			default:
				r = term.BVBin(term.OpLShr, a, cnt)
				over = term.BVC(w, 0)
			}
			return term.Ite(big, over, r)
		case token.LSS:
			if signed {
				return term.BVCmp(term.OpSLt, a, b)
			}
			return term.BVCmp(term.OpULt, a, b)
		case token.LEQ:
			if signed {
				return term.BVCmp(term.OpSLe, a, b)
			}
			return term.BVCmp(term.OpULe, a, b)
		case token.GTR:
			if signed {
				return term.BVCmp(term.OpSLt, b, a)
			}
			return term.BVCmp(term.OpULt, b, a)
		case token.GEQ:
			if signed {
				return term.BVCmp(term.OpSLe, b, a)
			}
			return term.BVCmp(term.OpULe, b, a)
		}
	}
	abort("UNMODELLED", "binop %v on sort %v", op, a.Sort)
	return nil
}

func (e *Engine) unop(op token.Token, t types.Type, x Value) Value {
	a, ok := x.(*term.Term)
	if !ok {
		abort("INTERNAL", "unop %v on %T", op, x)
	}
	switch op {
	case token.NOT:
		return term.Not(a)
	case token.SUB:
		if a.Sort.K == term.KF64 {
			return term.FNeg(a)
		}
		return term.BVNeg(a)
	case token.XOR:
		return term.BVNot(a)
	}
	abort("UNMODELLED", "unop %v", op)
	return nil
}

func (e *Engine) convert(st *State, th *Thread, from, to types.Type, v Value, site string) Value {
	fu, tu := from.Underlying(), to.Underlying()
	fb, _ := fu.(*types.Basic)
	tb, _ := tu.(*types.Basic)
	if fb != nil && tb != nil {
		switch {
		case fb.Info()&types.IsInteger != 0 && tb.Info()&types.IsInteger != 0:
			w, _ := bvWidth(tb)
			_, s := bvWidth(fb)
			return term.Resize(v.(*term.Term), w, s)
		case fb.Info()&types.IsInteger != 0 && tb.Info()&types.IsFloat != 0:
			_, s := bvWidth(fb)
			if s {
				return term.SI2F(v.(*term.Term))
			}
			return term.UI2F(v.(*term.Term))
		case fb.Info()&types.IsFloat != 0 && tb.Info()&types.IsInteger != 0:
			w, s := bvWidth(tb)
			if s {
				return term.F2SI(v.(*term.Term), w)
			}
			return term.F2UI(v.(*term.Term), w)
		case fb.Info()&types.IsFloat != 0 && tb.Info()&types.IsFloat != 0:
			return v
		case fb.Info()&types.IsString != 0 && tb.Info()&types.IsString != 0:
			return v
		case fb.Info()&types.IsInteger != 0 && tb.Info()&types.IsString != 0:
			t := v.(*term.Term)
			if t.IsConst() {
				return term.StrC(string(rune(t.SVal())))
			}
			abort("UNMODELLED", "string(symbolic rune)")
		case fb.Kind() == types.UnsafePointer || tb.Kind() == types.UnsafePointer:
			return v
		}
	}
	// string -> []byte
	if fb != nil && fb.Info()&types.IsString != 0 {
		if sl, ok := tu.(*types.Slice); ok {
			if eb := basicOf(sl.Elem()); eb != nil && eb.Kind() == types.Uint8 {
				s := v.(*term.Term)
				return e.bytesOfString(st, th, s, sl.Elem(), site)
			}
		}
	}
	// []byte -> string
	if tb != nil && tb.Info()&types.IsString != 0 {
		if sl, ok := fu.(*types.Slice); ok {
			if eb := basicOf(sl.Elem()); eb != nil && eb.Kind() == types.Uint8 {
				return e.stringOfBytes(st, e.pick(st, v).(Slice))
			}
		}
	}
	if _, ok := fu.(*types.Pointer); ok {
		return v
	}
	abort("UNMODELLED", "conversion %v -> %v", from, to)
	return nil
}

// stringCells: the bytes of a string term whose length is concrete: constants, strings converted from byte
// slices, and concatenations of those.
func stringCells(s *term.Term) ([]Value, bool) {
	switch {
	case s.IsConst():
		out := make([]Value, len(s.S))
		for i := 0; i < len(s.S); i++ {
			out[i] = term.BVC(8, uint64(s.S[i]))
		}
		return out, true
	case s.Op == term.OpUF && strings.HasPrefix(s.S, "str_of_bytes_"):
		out := make([]Value, len(s.Args))
		for i, a := range s.Args {
			out[i] = a
		}
		return out, true
	case s.Op == term.OpSConcat:
		a, ok1 := stringCells(s.Args[0])
		b, ok2 := stringCells(s.Args[1])
		if ok1 && ok2 {
			return append(append([]Value{}, a...), b...), true
		}
	}
	return nil, false
}

// strBytes is the table of uninterpreted "string built from these bytes" terms.
func (e *Engine) bytesOfString(st *State, th *Thread, s *term.Term, et types.Type, site string) Value {
	if !s.IsConst() {
		if s.Op == term.OpIte {
			if e.decide(st, s.Args[0]) {
				return e.bytesOfString(st, th, s.Args[1], et, site)
			}
			return e.bytesOfString(st, th, s.Args[2], et, site)
		}
		if cells, ok := stringCells(s); ok {
			id := e.newObjID(st, th, site)
			st.setObj(id, &Object{Kind: OMem, Cells: cells, T: et, ep: st.ep})
			return Slice{Obj: id, Len: len(cells), Cap: len(cells)}
		}
		if s.Op == term.OpUF && s.S == "json_coerced" && s.Args[0].Op == term.OpUF && strings.HasPrefix(s.Args[0].S, "str_of_bytes_") {
			// the bytes of a string that encoding/json had to coerce to valid UTF-8: some other bytes (the length
			// is kept equal, an abstraction: any comparison with the original already fails)
			orig := s.Args[0].Args
			cells := make([]Value, len(orig))
			var diff []*term.Term
			for i, a := range orig {
				b := term.UF(fmt.Sprintf("json_coerced_byte_%d", i), term.BV(8), s)
				cells[i] = b
				diff = append(diff, term.Not(term.Eq(a, b)))
			}
			st.PC = term.And(st.PC, term.Or(diff...))
			id := e.newObjID(st, th, site)
			st.setObj(id, &Object{Kind: OMem, Cells: cells, T: et, ep: st.ep})
			return Slice{Obj: id, Len: len(cells), Cap: len(cells)}
		}
		// symbolic string: keep an opaque link through an uninterpreted pair of functions
		e.mu.Lock()
		sl, ok := e.strToBytes[s]
		e.mu.Unlock()
		if ok {
			// fresh copy of the same contents
			src := st.obj(sl.Obj)
			id := e.newObjID(st, th, site)
			st.setObj(id, &Object{Kind: OMem, Cells: append([]Value(nil), src.Cells[sl.Off:sl.Off+sl.Len]...), T: et, ep: st.ep})
			return Slice{Obj: id, Len: sl.Len, Cap: sl.Len}
		}
		abort("UNMODELLED", "[]byte(symbolic string %s)", s)
	}
	b := []byte(s.S)
	id := e.newObjID(st, th, site)
	cells := make([]Value, len(b))
	for i, c := range b {
		cells[i] = term.BVC(8, uint64(c))
	}
	st.setObj(id, &Object{Kind: OMem, Cells: cells, T: et, ep: st.ep})
	return Slice{Obj: id, Len: len(b), Cap: len(b)}
}

func (e *Engine) stringOfBytes(st *State, sl Slice) Value {
	if sl.Obj == 0 || sl.Len == 0 {
		return term.StrC("")
	}
	o := st.obj(sl.Obj)
	buf := make([]byte, sl.Len)
	allConst := true
	for i := 0; i < sl.Len; i++ {
		c := o.Cells[sl.Off+i].(*term.Term)
		if !c.IsConst() {
			allConst = false
			break
		}
		buf[i] = byte(c.U)
	}
	if allConst {
		return term.StrC(string(buf))
	}
	// symbolic bytes: an injective uninterpreted encoding per length (bytes -> string)
	args := make([]*term.Term, sl.Len)
	for i := range args {
		args[i] = o.Cells[sl.Off+i].(*term.Term)
	}
	t := term.UF(fmt.Sprintf("str_of_bytes_%d", sl.Len), term.Str, args...)
	e.needBytesAxiom(sl.Len)
	e.mu.Lock()
	e.strToBytes[t] = sl
	e.mu.Unlock()
	return t
}

func (e *Engine) stringIndex(st *State, s *term.Term, idx *term.Term) Value {
	if s.IsConst() {
		i := e.concreteInt(st, idx, "string index")
		if i < 0 || i >= len(s.S) {
			panic(goPanicSig{msg: "runtime error: index out of range (string)"})
		}
		return term.BVC(8, uint64(s.S[i]))
	}
	abort("UNMODELLED", "index of symbolic string")
	return nil
}

func (e *Engine) sliceOp(st *State, th *Thread, in *ssa.Slice, fr *Frame) Value {
	x := e.pick(st, e.get(st, fr, in.X))
	geti := func(v ssa.Value, def int) int {
		if v == nil {
			return def
		}
		return e.concreteInt(st, e.get(st, fr, v).(*term.Term), "slice bound")
	}
	switch xv := x.(type) {
	case *term.Term: // string
		if xv.IsConst() {
			lo := geti(in.Low, 0)
			hi := geti(in.High, len(xv.S))
			if lo < 0 || hi > len(xv.S) || lo > hi {
				panic(goPanicSig{msg: "runtime error: slice bounds out of range (string)"})
			}
			return term.StrC(xv.S[lo:hi])
		}
		lo := term.IntC(0)
		if in.Low != nil {
			lo = term.BV2Int(e.get(st, fr, in.Low).(*term.Term))
		}
		var n *term.Term
		if in.High != nil {
			n = term.IBin(term.OpISub, term.BV2Int(e.get(st, fr, in.High).(*term.Term)), lo)
		} else {
			n = term.IBin(term.OpISub, term.SLen(xv), lo)
		}
		return term.SSubstr(xv, lo, n)
	case Slice:
		es := sizeOf(in.X.Type().Underlying().(*types.Slice).Elem())
		lo := geti(in.Low, 0)
		hi := geti(in.High, xv.Len)
		mx := geti(in.Max, xv.Cap)
		if lo < 0 || lo > hi || hi > mx || mx > xv.Cap {
			panic(goPanicSig{msg: fmt.Sprintf("runtime error: slice bounds out of range [%d:%d:%d] with capacity %d", lo, hi, mx, xv.Cap)})
		}
		if xv.Obj == 0 {
			return Slice{}
		}
		return Slice{Obj: xv.Obj, Off: xv.Off + lo*es, Len: hi - lo, Cap: mx - lo}
	case Ptr:
		at := in.X.Type().Underlying().(*types.Pointer).Elem().Underlying().(*types.Array)
		if xv.Obj == 0 {
			e.nilDeref("slice of nil array pointer")
		}
		es := sizeOf(at.Elem())
		n := int(at.Len())
		lo := geti(in.Low, 0)
		hi := geti(in.High, n)
		mx := geti(in.Max, n)
		if lo < 0 || lo > hi || hi > mx || mx > n {
			panic(goPanicSig{msg: "runtime error: slice bounds out of range (array)"})
		}
		return Slice{Obj: xv.Obj, Off: xv.Off + lo*es, Len: hi - lo, Cap: mx - lo}
	}
	abort("INTERNAL", "Slice on %T", x)
	return nil
}

// ---------------------------------------------------------------- maps

func (e *Engine) mapLookup(st *State, m MapRef, k Value, elemT types.Type) (Value, *term.Term) {
	res := zeroValue(elemT)
	found := term.False
	if m.Obj == 0 {
		return res, found
	}
	o := st.obj(m.Obj)
	for _, en := range o.Ents {
		c := st.simp(term.And(en.G, e.valuesEqual(en.K, k)))
		if c == term.False {
			continue
		}
		res = iteValue(c, en.V, res)
		found = term.Or(found, c)
		if c == term.True {
			break
		}
	}
	return res, found
}

func (e *Engine) mapUpdate(st *State, m MapRef, k, v Value) {
	o := st.objW(m.Obj)
	hit := term.False
	for i := range o.Ents {
		en := &o.Ents[i]
		c := st.simp(term.And(en.G, e.valuesEqual(en.K, k)))
		if c == term.False {
			continue
		}
		en.V = iteValue(c, v, en.V)
		hit = term.Or(hit, c)
		if c == term.True {
			return
		}
	}
	g := term.Not(hit)
	if g != term.False {
		o.Ents = append(o.Ents, MapEnt{K: k, V: v, G: g})
	}
}

func (e *Engine) mapDelete(st *State, m MapRef, k Value) {
	if m.Obj == 0 {
		return
	}
	o := st.objW(m.Obj)
	out := o.Ents[:0]
	for _, en := range o.Ents {
		en.G = st.simp(term.And(en.G, term.Not(e.valuesEqual(en.K, k))))
		if en.G != term.False {
			out = append(out, en)
		}
	}
	o.Ents = out
}

func (e *Engine) mapLen(st *State, m MapRef) *term.Term {
	n := term.BVC(64, 0)
	if m.Obj == 0 {
		return n
	}
	for _, en := range st.obj(m.Obj).Ents {
		n = term.BVBin(term.OpAdd, n, term.Ite(en.G, term.BVC(64, 1), term.BVC(64, 0)))
	}
	return n
}

func (e *Engine) iterNext(st *State, it IterRef, in *ssa.Next) Value {
	tu := in.Type().(*types.Tuple)
	io := st.obj(it.Obj)
	if in.IsString {
		s := io.IterStr.S
		idx := io.IterIdx
		if idx >= len(s) {
			return Tuple{term.False, term.BVC(64, 0), term.BVC(32, 0)}
		}
		// decode one rune
		r, size := decodeRune(s[idx:])
		w := st.objW(it.Obj)
		w.IterIdx = idx + size
		return Tuple{term.True, term.BVC(64, uint64(idx)), term.BVC(32, uint64(r))}
	}
	idx := io.IterIdx
	if io.IterMap != 0 {
		ents := st.obj(io.IterMap).Ents
		for idx < len(ents) {
			en := ents[idx]
			if e.decide(st, en.G) {
				w := st.objW(it.Obj)
				w.IterIdx = idx + 1
				return Tuple{term.True, en.K, en.V}
			}
			idx++
		}
	}
	w := st.objW(it.Obj)
	w.IterIdx = idx
	return Tuple{term.False, zeroOrDummy(tu.At(1).Type()), zeroOrDummy(tu.At(2).Type())}
}

func decodeRune(s string) (rune, int) {
	for i, r := range s {
		_ = i
		n := len(string(r))
		if r == 0xFFFD && (len(s) < 3 || s[:3] != "�") {
			return r, 1
		}
		return r, n
	}
	return 0, 0
}

// ---------------------------------------------------------------- builtins

func (e *Engine) builtin(st *State, th *Thread, name string, args []Value, in *ssa.Call) Value {
	switch name {
	case "len":
		switch x := e.pick(st, args[0]).(type) {
		case *term.Term:
			return term.Int2BV(term.SLen(x), 64)
		case Slice:
			return term.BVC(64, uint64(x.Len))
		case MapRef:
			return e.mapLen(st, x)
		case ChanRef:
			if x.Obj == 0 {
				return term.BVC(64, 0)
			}
			return term.BVC(64, uint64(len(st.obj(x.Obj).Buf)))
		case Struct: // array value
			at := in.Common().Args[0].Type().Underlying().(*types.Array)
			return term.BVC(64, uint64(at.Len()))
		case Ptr: // pointer to array
			at := in.Common().Args[0].Type().Underlying().(*types.Pointer).Elem().Underlying().(*types.Array)
			return term.BVC(64, uint64(at.Len()))
		}
	case "cap":
		switch x := e.pick(st, args[0]).(type) {
		case Slice:
			return term.BVC(64, uint64(x.Cap))
		case ChanRef:
			if x.Obj == 0 {
				return term.BVC(64, 0)
			}
			return term.BVC(64, uint64(st.obj(x.Obj).Cap))
		}
	case "append":
		s := e.pick(st, args[0]).(Slice)
		st0 := in.Common().Args[0].Type().Underlying().(*types.Slice)
		es := sizeOf(st0.Elem())
		var src []Value
		switch a := e.pick(st, args[1]).(type) {
		case Slice:
			if a.Obj != 0 {
				o := st.obj(a.Obj)
				src = append(src, o.Cells[a.Off:a.Off+a.Len*es]...)
			}
			if a.Len == 0 {
				return s
			}
		case *term.Term: // append([]byte, string...)
			if !a.IsConst() {
				abort("UNMODELLED", "append of symbolic string")
			}
			for _, c := range []byte(a.S) {
				src = append(src, term.BVC(8, uint64(c)))
			}
			if len(src) == 0 {
				return s
			}
		default:
			abort("INTERNAL", "append arg %T", a)
		}
		n := len(src) / es
		if s.Obj != 0 && s.Len+n <= s.Cap {
			o := st.objW(s.Obj)
			copy(o.Cells[s.Off+s.Len*es:], src)
			e.noteAccess(st, Ptr{s.Obj, s.Off + s.Len*es}, len(src), true)
			return Slice{Obj: s.Obj, Off: s.Off, Len: s.Len + n, Cap: s.Cap}
		}
		nc := s.Cap * 2
		if nc < s.Len+n {
			nc = s.Len + n
		}
		id := e.allocMem(st, th, st0.Elem(), nc, e.pos(in))
		o := st.obj(id)
		if s.Obj != 0 {
			copy(o.Cells, st.obj(s.Obj).Cells[s.Off:s.Off+s.Len*es])
		}
		copy(o.Cells[s.Len*es:], src)
		return Slice{Obj: id, Off: 0, Len: s.Len + n, Cap: nc}
	case "copy":
		d := e.pick(st, args[0]).(Slice)
		es := sizeOf(in.Common().Args[0].Type().Underlying().(*types.Slice).Elem())
		var src []Value
		switch a := e.pick(st, args[1]).(type) {
		case Slice:
			if a.Obj != 0 {
				src = append(src, st.obj(a.Obj).Cells[a.Off:a.Off+a.Len*es]...)
			}
		case *term.Term:
			for a.Op == term.OpIte { // a choice of strings: decide which one it is on this path
				if e.decide(st, a.Args[0]) {
					a = a.Args[1]
				} else {
					a = a.Args[2]
				}
			}
			cells, ok := stringCells(a)
			if !ok {
				abort("UNMODELLED", "copy from symbolic string %s", a)
			}
			src = append(src, cells...)
		}
		n := len(src) / es
		if n > d.Len {
			n = d.Len
		}
		if n > 0 {
			o := st.objW(d.Obj)
			copy(o.Cells[d.Off:d.Off+n*es], src[:n*es])
		}
		return term.BVC(64, uint64(n))
	case "delete":
		e.mapDelete(st, e.pick(st, args[0]).(MapRef), args[1])
		return nil
	case "print", "println":
		return nil
	case "recover":
		return e.doRecover(st, th)
	case "min", "max":
		t := in.Common().Args[0].Type()
		acc := args[0]
		for _, a := range args[1:] {
			var lt *term.Term
			if name == "min" {
				lt = e.binop(st, token.LSS, t, a, acc).(*term.Term)
			} else {
				lt = e.binop(st, token.GTR, t, a, acc).(*term.Term)
			}
			acc = iteValue(lt, a, acc)
		}
		return acc
	case "ssa:wrapnilchk":
		p := e.pick(st, args[0]).(Ptr)
		if p.Obj == 0 {
			e.nilDeref("wrapper nil check")
		}
		return p
	case "clear":
		switch x := e.pick(st, args[0]).(type) {
		case MapRef:
			if x.Obj != 0 {
				st.objW(x.Obj).Ents = nil
			}
			return nil
		}
	}
	abort("UNMODELLED", "builtin %s", name)
	return nil
}

func (e *Engine) doRecover(st *State, th *Thread) Value {
	// recover() is effective only when called directly by a deferred function
	// while the frame below it is unwinding
	n := len(th.Frames)
	if e.TraceExec {
		fmt.Fprintf(e.Log, "    recover: frames=%d panic=%v", n, th.Panic != nil)
		if n >= 2 {
			fmt.Fprintf(e.Log, " topKind=%d belowUnwind=%v belowFn=%s", th.Frames[n-1].Kind, th.Frames[n-2].Unwind, th.Frames[n-2].Fn.Name())
		}
		fmt.Fprintln(e.Log)
	}
	if n >= 2 && th.Panic != nil && !th.Panic.Recovered {
		top := th.Frames[n-1]
		below := th.Frames[n-2]
		if top.Kind == FDeferred && below.Unwind {
			np := *th.Panic // the panic record is shared by forked states: never modified in place
			np.Recovered = true
			th.Panic = &np
			return np.Val
		}
	}
	return Iface{}
}

// zeroOrDummy: go/ssa gives unused range components the invalid type.
func zeroOrDummy(t types.Type) Value {
	if b, ok := t.(*types.Basic); ok && b.Kind() == types.Invalid {
		return term.False
	}
	return zeroValue(t)
}
