package sym

import "golang.org/x/tools/go/ssa"

// noteAccess records a plain memory access for the race check (see race refinement).
func (e *Engine) noteAccess(st *State, p Ptr, n int, write bool) {}

// promotedAccess turns loads/stores of promoted (racy) cells into visible operations.
func (e *Engine) promotedAccess(st *State, th *Thread, p Ptr, in ssa.Instruction, v Value) *VisOp {
	return nil
}
