package sym

import (
	"fmt"

	"golang.org/x/tools/go/ssa"
)

// Data-race check (DESIGN §3.5). Plain memory accesses are not scheduling points, which is sound
// for data-race-free code. Every thread keeps the set of cells it accessed in its most recent
// atomic block (after its last visible operation). An access by another thread to a cell of such
// an open set, one of the two being a write, is unordered by happens-before: a data race.
type accessRec struct {
	obj   ObjID
	off   int
	n     int
	write bool
	instr ssa.Instruction
	rel   []Ptr // sync objects this thread released after the access without an intervening scheduling point
}

// ghostRec: an access of the final block of a thread that has exited. Thread exit is not a synchronisation, so
// these accesses stay unordered with everything that does not acquire something the thread released after them.
type ghostRec struct {
	accessRec
	owner  ThreadID
	blocks int
	idx    int
}

const maxGhosts = 512

func (e *Engine) noteAccess(st *State, p Ptr, n int, write bool) {
	if !e.RaceCheck || (len(st.Threads) < 2 && len(st.Ghosts) == 0) || e.curThread == 0 {
		return
	}
	ti := st.threadIdx(e.curThread)
	if ti < 0 {
		return
	}
	th := st.Threads[ti]
	if th.Atomic > 0 || e.promoted[e.curInstr] {
		return
	}
	for _, ot := range st.Threads {
		if ot.ID == th.ID {
			continue
		}
		skip := 0
		for _, b := range th.Bars {
			if b.parent == ot.ID && ot.Blocks == b.blocks && b.n > skip {
				skip = b.n // accesses of an ancestor that precede the go statement
			}
		}
		for i, a := range ot.Open {
			if i < skip {
				continue
			}
			if a.obj != p.Obj || !(write || a.write) {
				continue
			}
			if len(a.rel) > 0 && holdsAny(th, a.rel) {
				continue // ordered: the accessing thread holds a lock the other one released after its access
			}
			if a.off < p.Off+n && p.Off < a.off+a.n {
				e.recordRace(st, p, a.instr, e.curInstr, a.write, write)
			}
		}
	}
	for _, g := range st.Ghosts {
		if g.obj != p.Obj || !(write || g.write) {
			continue
		}
		ordered := false
		for _, b := range th.Bars {
			if b.parent == g.owner && b.blocks == g.blocks && g.idx < b.n {
				ordered = true // the exited thread spawned (an ancestor of) this one after the access
			}
		}
		if ordered || (len(g.rel) > 0 && holdsAny(th, g.rel)) {
			continue
		}
		if g.off < p.Off+n && p.Off < g.off+g.n {
			e.recordRace(st, p, g.instr, e.curInstr, g.write, write)
		}
	}
	w := st.threadW(ti)
	w.Open = append(w.Open[:len(w.Open):len(w.Open)], accessRec{p.Obj, p.Off, n, write, e.curInstr, nil})
}

func (e *Engine) recordRace(st *State, p Ptr, a, b ssa.Instruction, aw, bw bool) {
	rw := func(w bool) string {
		if w {
			return "write"
		}
		return "read"
	}
	pa, pb := e.pos(a), e.pos(b)
	if pb < pa {
		pa, pb = pb, pa
		aw, bw = bw, aw
	}
	key := pa + " / " + pb
	e.mu.Lock()
	_, dup := e.Races[key]
	e.mu.Unlock()
	if dup {
		return
	}
	what := ""
	if o := st.lookupObj(p.Obj); o != nil && o.T != nil {
		what = fmt.Sprintf(" on %s+%d (allocated at %s)", o.T, p.Off, o.Site)
	}
	desc := fmt.Sprintf("%s at %s races with %s at %s%s", rw(aw), pa, rw(bw), pb, what)
	e.mu.Lock()
	e.Races[key] = desc
	if a != nil {
		e.RaceInstrs[a] = true
	}
	if b != nil {
		e.RaceInstrs[b] = true
	}
	e.mu.Unlock()
	if e.RaceIsViolation {
		e.report(st, &Violation{Kind: "race", Label: "data race: " + desc, Cond: st.PC})
	}
}

// promotedAccess turns loads/stores at promoted (racy) instructions into visible operations.
func (e *Engine) promotedAccess(st *State, th *Thread, p Ptr, in ssa.Instruction, v Value) *VisOp {
	if len(e.promoted) == 0 || !e.promoted[in] || th.Atomic > 0 {
		return nil
	}
	if p.Obj == 0 {
		e.nilDeref("promoted access")
	}
	if _, ok := in.(*ssa.Store); ok {
		return &VisOp{Kind: VStore, P: p, Val: v, Instr: in}
	}
	return &VisOp{Kind: VLoad, P: p, Instr: in}
}

// Promote marks instructions (by source position) as visible accesses for the next run.
func (e *Engine) Promote(instrs map[ssa.Instruction]bool) {
	for in := range instrs {
		e.promoted[in] = true
	}
}

func holdsAny(th *Thread, ps []Ptr) bool {
	for _, p := range ps {
		for _, h := range th.Held {
			if h == p {
				return true
			}
		}
	}
	return false
}

// markReleased: a release executed without a scheduling point keeps the open set, tagged with the released object.
func markReleased(th *Thread, p Ptr) {
	if len(th.Open) == 0 {
		return
	}
	n := make([]accessRec, len(th.Open))
	for i, a := range th.Open {
		a.rel = append(a.rel[:len(a.rel):len(a.rel)], p)
		n[i] = a
	}
	th.Open = n
}

func holdAdd(th *Thread, p Ptr) { th.Held = append(th.Held[:len(th.Held):len(th.Held)], p) }

func holdDel(th *Thread, p Ptr) {
	for i := len(th.Held) - 1; i >= 0; i-- {
		if th.Held[i] == p {
			n := append([]Ptr(nil), th.Held[:i]...)
			th.Held = append(n, th.Held[i+1:]...)
			return
		}
	}
}
