package sym

import (
	"fmt"
	"runtime/debug"
	"sort"
	"strings"
	"time"

	"golang.org/x/tools/go/ssa"

	"gosym/term"
)

type HarnessResult struct {
	Harness      string            `json:"harness"`
	Verdict      string            `json:"verdict"` // held, violated, inconclusive
	Violations   []*ViolationOut   `json:"violations,omitempty"`
	Inconclusive []string          `json:"inconclusive,omitempty"`
	Witness      *ViolationOut     `json:"witness,omitempty"`
	Stats        Stats             `json:"stats"`
	Queries      int               `json:"queries"`
	QSat         int               `json:"queries_sat"`
	QUnsat       int               `json:"queries_unsat"`
	QUnknown     int               `json:"queries_unknown"`
	SolverSecs   float64           `json:"solver_time_s"`
	WallSecs     float64           `json:"wall_s"`
	Functions    []string          `json:"functions_encoded"`
	Assumes      int               `json:"assumes"`
	Inputs       []string          `json:"symbolic_inputs"`
	Terms        int               `json:"terms"`
	Races        map[string]string `json:"races_observed,omitempty"`
	Bounds       map[string]int    `json:"bounds"`
	RefineRounds int               `json:"refine_rounds"`
	Reached      []string          `json:"reached,omitempty"`
}

type ViolationOut struct {
	Kind     string                 `json:"kind"`
	Label    string                 `json:"label"`
	Site     string                 `json:"site,omitempty"`
	Model    map[string]string      `json:"model"`
	Tags     map[string]string      `json:"tags,omitempty"`
	Obs      map[string]string      `json:"observations,omitempty"`
	Trace    []string               `json:"schedule,omitempty"`
	Values   map[string]interface{} `json:"values"`
	ObsTyped map[string]interface{} `json:"observed,omitempty"`
	Blocked  []string               `json:"blocked,omitempty"`
	Sig      string                 `json:"signature"`
	Gates    []string               `json:"gates,omitempty"`
}

func outViolation(v *Violation) *ViolationOut {
	if v == nil {
		return nil
	}
	return &ViolationOut{Kind: v.Kind, Label: v.Label, Site: v.Site, Model: v.Model, Tags: v.Tags, Obs: v.Obs, Trace: v.Trace,
		Values: v.ModelTyped, ObsTyped: v.ObsTyped, Blocked: v.Blocked, Sig: v.Signature(), Gates: v.Gates}
}

// InitList is the set of packages whose globals are allocated and whose init functions run.
var InitList = []string{
	"context", "io", "internal/oserror", "time", "strings",
	"github.com/pkg/errors", "github.com/cenkalti/backoff/v3", "github.com/sony/gobreaker", "github.com/hashicorp/go-multierror", "github.com/hashicorp/errwrap",
	ModulePath, ModulePath + "/...",
}

// RunHarness symbolically executes one harness function under all schedules.
func (e *Engine) RunHarness(fn *ssa.Function) (res *HarnessResult) {
	t0 := time.Now()
	res = &HarnessResult{Harness: fn.String(), Bounds: map[string]int{"unwind": e.Unwind, "max_call_depth": e.MaxDepth, "max_enum": e.MaxEnum}}
	e.harnessName = fn.String()
	q0 := e.Solver.Stats
	defer func() {
		if r := recover(); r != nil {
			switch sig := r.(type) {
			case abortSig:
				e.inconclusive(sig.kind + ": " + sig.msg)
			default:
				e.inconclusive(fmt.Sprintf("INTERNAL: engine crash: %v\n%s", r, debug.Stack()))
			}
		}
		for _, v := range e.Violations {
			res.Violations = append(res.Violations, outViolation(v))
		}
		res.Inconclusive = dedupe(e.Inconclusive)
		res.Witness = outViolation(e.Witness)
		res.Stats = e.Stats
		qs := e.Solver.Stats
		res.Queries = qs.Queries - q0.Queries
		res.QSat = qs.Sat - q0.Sat
		res.QUnsat = qs.Unsat - q0.Unsat
		res.QUnknown = qs.Unknown - q0.Unknown
		res.SolverSecs = (qs.Time - q0.Time).Seconds()
		res.WallSecs = time.Since(t0).Seconds()
		for f := range e.Funcs {
			res.Functions = append(res.Functions, f)
		}
		sort.Strings(res.Functions)
		res.Assumes = int(*e.assumes)
		res.Inputs = append([]string(nil), e.symOrder...)
		res.Terms = term.NumTerms()
		res.Races = e.Races
		for l := range e.Reached {
			res.Reached = append(res.Reached, l)
		}
		sort.Strings(res.Reached)
		switch {
		case len(res.Violations) > 0:
			res.Verdict = "violated"
		case len(res.Inconclusive) > 0:
			res.Verdict = "inconclusive"
		case e.WitnessWanted && e.Witness == nil:
			res.Verdict = "inconclusive"
			res.Inconclusive = append(res.Inconclusive, "VACUOUS: no complete feasible run reached the end of the harness")
		default:
			res.Verdict = "held"
		}
	}()
	st := newState()
	mainID := e.internThread(threadKey{0, "main", 0})
	st.Threads = []*Thread{{ID: mainID, Started: true, ep: st.ep}}
	e.InitPackages(st, InitList)
	st = e.RunInits(st)
	mt := st.threadW(0)
	mt.Exited = false
	mt.Frames = nil
	mt.Started = false
	mt.Start = &StartCall{Fn: &Closure{Fn: fn}}
	mt.MustFinish = true
	e.Explore(st)
	return res
}

func dedupe(xs []string) []string {
	seen := map[string]bool{}
	var out []string
	for _, x := range xs {
		k := x
		if i := strings.Index(k, "\n"); i > 0 {
			k = k[:i]
		}
		if !seen[k] {
			seen[k] = true
			out = append(out, x)
		}
	}
	return out
}
