package sym

import (
	"bytes"
	"encoding/binary"
	"fmt"
	"go/types"
	"sort"
	"strings"
	"sync"
	"sync/atomic"
	"time"

	"golang.org/x/tools/go/ssa"

	"gosym/term"
)

type StartCall struct {
	Fn   *Closure
	Args []Value
}

type deadSig struct{}

// FireAlt is one way in which a thread's pending visible operation can execute.
type FireAlt struct {
	Thread  ThreadID
	Case    int      // select case index (-1: default / not a select)
	Partner ThreadID // rendezvous partner (0 = none)
	PCase   int      // partner's select case index (-1 plain recv)
	Desc    string
	// timed mode (Engine.Timed): see annotateTimed
	Frozen    bool         // a timer receive that may not let time pass (something else can run now)
	OtherDues []*term.Term // deadlines of the other timers somebody waits for: this one fires no later
	NotDue    []*term.Term // default case of a non-blocking select: these timers have not expired yet
}

func (e *Engine) setPending(st *State, th *Thread, op *VisOp) {
	th.Pending = op
}

// visibleCall classifies a resolved call as a visible operation (nil = invisible).
func (e *Engine) visibleCall(st *State, th *Thread, fn *Closure, args []Value, in *ssa.Call) *VisOp {
	var instr ssa.Instruction
	if in != nil {
		instr = in
	}
	if fn.Fn == nil {
		if fn.Name == "builtin:close" {
			return &VisOp{Kind: VClose, Ch: e.pick(st, args[0]).(ChanRef), Instr: instr}
		}
		return nil
	}
	name := fn.Fn.String()
	if o := fn.Fn.Origin(); o != nil {
		name = o.String()
	}
	k, ok := e.visibleFns[name]
	if !ok {
		return nil
	}
	op := &VisOp{Kind: k, Instr: instr, Name: name}
	switch k {
	case VLock, VUnlock, VRLock, VRUnlock, VWLockAnnounce, VWgWait:
		op.P = e.pick(st, args[0]).(Ptr)
		if op.P.Obj == 0 {
			e.nilDeref(name)
		}
	case VWgAdd:
		op.P = e.pick(st, args[0]).(Ptr)
		if op.P.Obj == 0 {
			e.nilDeref(name)
		}
		if strings.HasSuffix(name, ".Done") {
			op.Delta = term.BVC(64, ^uint64(0))
		} else {
			op.Delta = args[1].(*term.Term)
		}
	case VAtomicCall:
		op.Fn = fn.Fn
		op.Env = fn.Env
		op.Args = args
	case VYield:
	}
	return op
}

// ---------------------------------------------------------------- configuration keys

func (e *Engine) configKey(st *State) string {
	var b bytes.Buffer
	var tmp [binary.MaxVarintLen64]byte
	put := func(x int) {
		n := binary.PutVarint(tmp[:], int64(x))
		b.Write(tmp[:n])
	}
	for _, th := range st.Threads {
		put(int(th.ID))
		put(th.Blocks)
		put(len(th.Frames))
		for _, f := range th.Frames {
			put(e.fnID(f.Fn))
			put(f.Block)
			put(f.IP)
			fl := len(f.Defers) << 2
			if f.Unwind {
				fl |= 1
			}
			if f.Atomic {
				fl |= 2
			}
			if f.Recovered {
				fl |= 1 << 20
			}
			put(fl)
		}
		if th.Pending != nil {
			put(int(th.Pending.Kind))
			if th.Pending.FromDefer {
				put(1)
			}
		} else {
			put(0)
		}
		fl := 0
		if th.Started {
			fl |= 1
		}
		if th.Panic != nil {
			fl |= 2
			if th.Panic.Recovered {
				fl |= 4
			}
		}
		if th.MustFinish {
			fl |= 8
		}
		put(fl)
		b.WriteByte(0xff)
	}
	return b.String()
}

func (st *State) rank() int {
	r := 0
	for _, th := range st.Threads {
		r += th.Blocks
	}
	return r + st.ExitedBlocks
}

// ---------------------------------------------------------------- channel helpers

func (e *Engine) chanClosed(st *State, ch ChanRef) bool {
	o := st.obj(ch.Obj)
	if o.Closed.IsConst() {
		return o.Closed == term.True
	}
	v := e.decide(st, o.Closed)
	w := st.objW(ch.Obj)
	w.Closed = term.BoolC(v)
	return v
}

// recvReady: a receive on ch can complete without a partner.
func (e *Engine) recvReadyLocal(st *State, ch ChanRef) bool {
	if ch.Obj == 0 {
		return false
	}
	o := st.obj(ch.Obj)
	if len(o.Buf) > 0 {
		return true
	}
	return e.chanClosed(st, ch)
}

// sendReadyLocal: a send on ch can complete without a partner (buffer space, or closed -> panic).
func (e *Engine) sendReadyLocal(st *State, ch ChanRef) bool {
	if ch.Obj == 0 {
		return false
	}
	if e.chanClosed(st, ch) {
		return true
	}
	o := st.obj(ch.Obj)
	return o.Cap > 0 && len(o.Buf) < o.Cap
}

type partner struct {
	th ThreadID
	cs int
}

// receiversOn lists threads (other than self) blocked in a receive on ch.
func (e *Engine) receiversOn(st *State, self ThreadID, ch ChanRef) []partner {
	var out []partner
	for _, t := range st.Threads {
		if t.ID == self || t.Pending == nil {
			continue
		}
		switch t.Pending.Kind {
		case VRecv:
			if t.Pending.Ch == ch {
				out = append(out, partner{t.ID, -1})
			}
		case VSelect:
			for i, c := range t.Pending.Cases {
				if !c.Send && c.Ch == ch {
					out = append(out, partner{t.ID, i})
				}
			}
		}
	}
	return out
}

func (e *Engine) sendersOn(st *State, self ThreadID, ch ChanRef) bool {
	for _, t := range st.Threads {
		if t.ID == self || t.Pending == nil {
			continue
		}
		switch t.Pending.Kind {
		case VSend:
			if t.Pending.Ch == ch {
				return true
			}
		case VSelect:
			for _, c := range t.Pending.Cases {
				if c.Send && c.Ch == ch {
					return true
				}
			}
		}
	}
	return false
}

func (e *Engine) unbuffered(st *State, ch ChanRef) bool {
	return ch.Obj != 0 && st.obj(ch.Obj).Cap == 0
}

// alts computes the enabled alternatives of thread th's pending operation.
// It may panic with split signals (symbolic enabledness), handled by the caller.
func (e *Engine) alts(st *State, th *Thread) []FireAlt {
	op := th.Pending
	if op == nil {
		return nil
	}
	one := []FireAlt{{Thread: th.ID, Case: -1, PCase: -1}}
	switch op.Kind {
	case VStart, VUnlock, VRUnlock, VWLockAnnounce, VWgAdd, VAtomicCall, VYield, VClose, VLoad, VStore:
		return one
	case VLock:
		locked := st.obj(op.P.Obj).Cells[op.P.Off].(*term.Term)
		if e.decideCell(st, op.P, locked) {
			return nil
		}
		return one
	case VRLock:
		o := st.obj(op.P.Obj)
		writer := o.Cells[op.P.Off+1].(*term.Term)
		waiting := o.Cells[op.P.Off+2].(*term.Term)
		if e.decideCell(st, Ptr{op.P.Obj, op.P.Off + 1}, writer) {
			return nil
		}
		if e.concreteCell(st, Ptr{op.P.Obj, op.P.Off + 2}, waiting) != 0 {
			return nil
		}
		return one
	case VWLockAcquire:
		o := st.obj(op.P.Obj)
		if e.decideCell(st, Ptr{op.P.Obj, op.P.Off + 1}, o.Cells[op.P.Off+1].(*term.Term)) {
			return nil
		}
		if e.concreteCell(st, op.P, o.Cells[op.P.Off].(*term.Term)) != 0 {
			return nil
		}
		return one
	case VWgWait:
		cnt := st.obj(op.P.Obj).Cells[op.P.Off].(*term.Term)
		if e.concreteCell(st, op.P, cnt) != 0 {
			return nil
		}
		return one
	case VSend:
		if op.Ch.Obj == 0 {
			return nil
		}
		if e.sendReadyLocal(st, op.Ch) {
			return one
		}
		var out []FireAlt
		if e.unbuffered(st, op.Ch) {
			for _, p := range e.receiversOn(st, th.ID, op.Ch) {
				out = append(out, FireAlt{Thread: th.ID, Case: -1, Partner: p.th, PCase: p.cs})
			}
		}
		return out
	case VRecv:
		if e.recvReadyLocal(st, op.Ch) {
			return one
		}
		return nil
	case VSelect:
		var out []FireAlt
		anyReady := false
		for i, c := range op.Cases {
			if c.Ch.Obj == 0 {
				continue
			}
			if c.Send {
				if e.sendReadyLocal(st, c.Ch) {
					out = append(out, FireAlt{Thread: th.ID, Case: i, PCase: -1})
					anyReady = true
				} else if e.unbuffered(st, c.Ch) {
					for _, p := range e.receiversOn(st, th.ID, c.Ch) {
						out = append(out, FireAlt{Thread: th.ID, Case: i, Partner: p.th, PCase: p.cs})
						anyReady = true
					}
				}
			} else {
				if e.recvReadyLocal(st, c.Ch) {
					out = append(out, FireAlt{Thread: th.ID, Case: i, PCase: -1})
					anyReady = true
				} else if e.unbuffered(st, c.Ch) && e.sendersOn(st, th.ID, c.Ch) {
					anyReady = true // the rendezvous is generated from the sender's side
				}
			}
		}
		if !anyReady && !op.Blocking {
			out = append(out, FireAlt{Thread: th.ID, Case: -1, PCase: -1})
		} else if e.Timed && !op.Blocking {
			// timed mode: a non-blocking select whose only ready cases are timers takes the default when none has expired
			var dues []*term.Term
			onlyTimers := true
			for _, a := range out {
				if d := e.timerDue(st, op, a); d != nil {
					dues = append(dues, d)
				} else {
					onlyTimers = false
				}
			}
			if onlyTimers && len(dues) > 0 {
				for i := range out {
					out[i].Frozen = true
				}
				out = append(out, FireAlt{Thread: th.ID, Case: -1, PCase: -1, NotDue: dues})
			}
		}
		return out
	}
	abort("INTERNAL", "alts: op kind %d", op.Kind)
	return nil
}

// timerDue: the deadline of the timer channel alternative a of op receives from (nil: not a timer receive).
func (e *Engine) timerDue(st *State, op *VisOp, a FireAlt) *term.Term {
	if a.Partner != 0 || op == nil {
		return nil
	}
	var ch ChanRef
	switch op.Kind {
	case VRecv:
		ch = op.Ch
	case VSelect:
		if a.Case < 0 || op.Cases[a.Case].Send {
			return nil
		}
		ch = op.Cases[a.Case].Ch
	default:
		return nil
	}
	if ch.Obj == 0 {
		return nil
	}
	o := st.obj(ch.Obj)
	if o.TimerAt == nil || len(o.Buf) == 0 {
		return nil
	}
	return o.TimerAt
}

// annotateTimed implements the timed semantics (gosym run --timed): computation takes no time, so (1) a timer
// whose deadline lies in the future fires only when nothing else can run, and (2) of several awaited timers the
// earliest fires first. The constraints are imposed when the alternative is fired (timerFired).
func (e *Engine) annotateTimed(st *State, alts []FireAlt) {
	dues := make([]*term.Term, len(alts))
	nonTimer := 0
	for i, a := range alts {
		if ti := st.threadIdx(a.Thread); ti >= 0 {
			dues[i] = e.timerDue(st, st.Threads[ti].Pending, a)
		}
		if dues[i] == nil && len(a.NotDue) == 0 {
			nonTimer++
		}
	}
	for i := range alts {
		if dues[i] == nil {
			continue
		}
		if nonTimer > 0 {
			alts[i].Frozen = true
		}
		for j := range alts {
			if j != i && dues[j] != nil && dues[j] != dues[i] {
				alts[i].OtherDues = append(alts[i].OtherDues, dues[j])
			}
		}
	}
}

// decideCell decides a Boolean sync cell and makes it concrete in the state.
func (e *Engine) decideCell(st *State, p Ptr, t *term.Term) bool {
	if t.IsConst() {
		return t == term.True
	}
	v := e.decide(st, t)
	st.objW(p.Obj).Cells[p.Off] = term.BoolC(v)
	return v
}

func (e *Engine) concreteCell(st *State, p Ptr, t *term.Term) int {
	if t.IsConst() {
		return int(t.SVal())
	}
	v := e.concreteInt(st, t, "sync counter")
	st.objW(p.Obj).Cells[p.Off] = term.BVC(int(t.Sort.W), uint64(v))
	return v
}

// ---------------------------------------------------------------- firing

func (e *Engine) deliver(st *State, th *Thread, op *VisOp, v Value) {
	if op.FromDefer {
		fr := st.topW(th)
		fr.Defers = fr.Defers[:len(fr.Defers)-1]
		return
	}
	fr := st.topW(th)
	if val, ok := op.Instr.(ssa.Value); ok && v != nil {
		fr.Regs[fr.Info.index[val]] = v
	}
	fr.IP++
}

func (e *Engine) fatal(st *State, th *Thread, msg string) {
	// unrecoverable runtime error (fatal error: ...), reported as a violation of kind "fatal"
	e.report(st, &Violation{Kind: "panic", Label: "fatal error: " + msg, Cond: st.PC})
	panic(deadSig{})
}

func recvZero(op *VisOp) Value {
	var et types.Type
	switch in := op.Instr.(type) {
	case *ssa.UnOp:
		et = in.X.Type().Underlying().(*types.Chan).Elem()
	}
	return zeroValue(et)
}

func recvResult(op *VisOp, v Value, ok bool) Value {
	if op.CommaOk {
		return Tuple{v, term.BoolC(ok)}
	}
	return v
}

func selectResult(op *VisOp, idx int, ok bool, v Value) Value {
	in := op.Instr.(*ssa.Select)
	tu := Tuple{term.BVC(64, uint64(int64(idx))), term.BoolC(ok)}
	for i, s := range in.States {
		if s.Dir == types.RecvOnly {
			et := s.Chan.Type().Underlying().(*types.Chan).Elem()
			if i == idx && v != nil {
				tu = append(tu, v)
			} else {
				tu = append(tu, zeroValue(et))
			}
		}
	}
	return tu
}

// fireLocal executes th's pending op alone (no partner). selCase is the select case (-1 default).
func (e *Engine) fireLocal(st *State, th *Thread, op *VisOp, selCase int) {
	switch op.Kind {
	case VStart:
		th.Started = true
		sc := th.Start
		th.Start = nil
		e.callFunction(st, th, sc.Fn, sc.Args, nil, FQuiesce)
		return
	case VYield:
		e.deliver(st, th, op, nil)
	case VLock:
		st.objW(op.P.Obj).Cells[op.P.Off] = term.True
		holdAdd(th, op.P)
		e.deliver(st, th, op, nil)
	case VUnlock:
		if strings.Contains(op.Name, "RWMutex") {
			o := st.objW(op.P.Obj)
			if o.Cells[op.P.Off+1] != term.True {
				e.fatal(st, th, "sync: Unlock of unlocked RWMutex")
			}
			o.Cells[op.P.Off+1] = term.False
		} else {
			o := st.objW(op.P.Obj)
			if !e.decideCell(st, op.P, o.Cells[op.P.Off].(*term.Term)) {
				e.fatal(st, th, "sync: unlock of unlocked mutex")
			}
			st.objW(op.P.Obj).Cells[op.P.Off] = term.False
		}
		holdDel(th, op.P)
		e.deliver(st, th, op, nil)
	case VRLock:
		holdAdd(th, op.P)
		o := st.objW(op.P.Obj)
		o.Cells[op.P.Off] = term.BVBin(term.OpAdd, o.Cells[op.P.Off].(*term.Term), term.BVC(64, 1))
		e.deliver(st, th, op, nil)
	case VRUnlock:
		o := st.objW(op.P.Obj)
		n := e.concreteCell(st, op.P, o.Cells[op.P.Off].(*term.Term))
		if n <= 0 {
			e.fatal(st, th, "sync: RUnlock of unlocked RWMutex")
		}
		st.objW(op.P.Obj).Cells[op.P.Off] = term.BVC(64, uint64(n-1))
		holdDel(th, op.P)
		e.deliver(st, th, op, nil)
	case VWLockAnnounce:
		o := st.objW(op.P.Obj)
		o.Cells[op.P.Off+2] = term.BVBin(term.OpAdd, o.Cells[op.P.Off+2].(*term.Term), term.BVC(64, 1))
		n := *op
		n.Kind = VWLockAcquire
		th.Pending = &n
		return // stays at the same instruction, now waiting to acquire
	case VWLockAcquire:
		o := st.objW(op.P.Obj)
		o.Cells[op.P.Off+2] = term.BVBin(term.OpSub, o.Cells[op.P.Off+2].(*term.Term), term.BVC(64, 1))
		o.Cells[op.P.Off+1] = term.True
		holdAdd(th, op.P)
		e.deliver(st, th, op, nil)
	case VWgAdd:
		o := st.objW(op.P.Obj)
		n := term.BVBin(term.OpAdd, o.Cells[op.P.Off].(*term.Term), op.Delta)
		neg := term.BVCmp(term.OpSLt, n, term.BVC(64, 0))
		if e.decide(st, neg) {
			e.deliver(st, th, op, nil)
			panic(goPanicSig{msg: "sync: negative WaitGroup counter"})
		}
		st.objW(op.P.Obj).Cells[op.P.Off] = n
		e.deliver(st, th, op, nil)
	case VWgWait:
		holdAdd(th, op.P)
		e.deliver(st, th, op, nil)
	case VClose:
		if op.Ch.Obj == 0 {
			e.deliver(st, th, op, nil)
			panic(goPanicSig{msg: "close of nil channel"})
		}
		if e.chanClosed(st, op.Ch) {
			e.deliver(st, th, op, nil)
			panic(goPanicSig{msg: "close of closed channel"})
		}
		st.objW(op.Ch.Obj).Closed = term.True
		e.deliver(st, th, op, nil)
	case VSend:
		if e.chanClosed(st, op.Ch) {
			e.deliver(st, th, op, nil)
			panic(goPanicSig{msg: "send on closed channel"})
		}
		o := st.objW(op.Ch.Obj)
		o.Buf = append(o.Buf, op.Val)
		e.deliver(st, th, op, nil)
	case VRecv:
		o := st.objW(op.Ch.Obj)
		e.timerFired(st, o)
		if len(o.Buf) > 0 {
			v := o.Buf[0]
			o.Buf = append([]Value(nil), o.Buf[1:]...)
			e.deliver(st, th, op, recvResult(op, v, true))
		} else {
			e.deliver(st, th, op, recvResult(op, recvZero(op), false))
		}
	case VSelect:
		if selCase < 0 {
			if e.Timed {
				last := st.Clock
				if last == nil {
					last = term.BVC(64, 0)
				}
				for _, d := range e.curAlt.NotDue {
					e.assumeIn(st, term.BVCmp(term.OpULt, last, d))
				}
			}
			e.deliver(st, th, op, selectResult(op, -1, false, nil))
			return
		}
		c := op.Cases[selCase]
		if c.Send {
			if e.chanClosed(st, c.Ch) {
				e.deliver(st, th, op, nil)
				panic(goPanicSig{msg: "send on closed channel"})
			}
			o := st.objW(c.Ch.Obj)
			o.Buf = append(o.Buf, c.Val)
			e.deliver(st, th, op, selectResult(op, selCase, false, nil))
		} else {
			o := st.objW(c.Ch.Obj)
			e.timerFired(st, o)
			if len(o.Buf) > 0 {
				v := o.Buf[0]
				o.Buf = append([]Value(nil), o.Buf[1:]...)
				e.deliver(st, th, op, selectResult(op, selCase, true, v))
			} else {
				e.deliver(st, th, op, selectResult(op, selCase, false, nil))
			}
		}
	case VAtomicCall:
		name := op.Name
		if intr, ok := e.intrinsics[name]; ok {
			var call *ssa.Call
			if c, ok := op.Instr.(*ssa.Call); ok {
				call = c
			}
			v := intr(e, st, th, op.Fn, op.Args, call)
			e.deliver(st, th, op, v)
			return
		}
		// model function executed atomically
		if op.FromDefer {
			fr := st.topW(th)
			fr.Defers = fr.Defers[:len(fr.Defers)-1]
			e.callAtomic(st, th, &Closure{Fn: op.Fn, Env: op.Env}, op.Args, nil, FDeferred)
		} else {
			e.callAtomic(st, th, &Closure{Fn: op.Fn, Env: op.Env}, op.Args, op.Instr.(*ssa.Call), FNormal)
		}
	case VLoad:
		in := op.Instr.(*ssa.UnOp)
		t := in.X.Type().Underlying().(*types.Pointer).Elem()
		e.deliver(st, th, op, e.load(st, op.P, t))
	case VStore:
		in := op.Instr.(*ssa.Store)
		e.store(st, op.P, in.Val.Type(), op.Val)
		e.deliver(st, th, op, nil)
	default:
		abort("INTERNAL", "fireLocal kind %d", op.Kind)
	}
}

func (e *Engine) callAtomic(st *State, th *Thread, fn *Closure, args []Value, in *ssa.Call, kind FrameKind) {
	f := fn.Fn
	name := f.String()
	if m, ok := e.modelFns[name]; ok {
		f = m
	}
	fi := infoOf(f)
	nf := &Frame{Fn: f, Info: fi, Prev: -1, Regs: make([]Value, fi.nregs), Kind: kind, Atomic: true, ep: st.ep}
	copy(nf.Regs, args)
	copy(nf.Regs[len(f.Params):], fn.Env)
	th.Atomic++
	th.Frames = append(th.Frames, nf)
	e.noteFunction(f)
}

// fireInline executes a visible op immediately (single-threaded set-up, atomic sections, inits).
func (e *Engine) fireInline(st *State, th *Thread, op *VisOp) {
	th.Pending = op
	as := e.alts(st, th)
	th.Pending = nil
	if len(as) == 0 {
		abort("INTERNAL", "blocking operation %s inside an atomic section / sequential set-up at %s", visNames[op.Kind], e.pos(op.Instr))
	}
	a := as[0]
	if a.Partner != 0 {
		abort("INTERNAL", "rendezvous inside an atomic section")
	}
	e.curAlt = a
	e.fireLocal(st, th, op, a.Case)
}

// fire executes alternative a in state st (already a private copy).
func (e *Engine) fire(st *State, a FireAlt) {
	ti := st.threadIdx(a.Thread)
	th := st.threadW(ti)
	op := th.Pending
	th.Pending = nil
	th.Blocks++
	th.Open = nil
	e.curThread, e.curInstr = th.ID, op.Instr
	e.curAlt = a
	if a.Partner == 0 {
		e.fireLocal(st, th, op, a.Case)
		return
	}
	// rendezvous: th sends, partner receives
	pi := st.threadIdx(a.Partner)
	pt := st.threadW(pi)
	pop := pt.Pending
	pt.Pending = nil
	pt.Blocks++
	pt.Open = nil
	var val Value
	if op.Kind == VSend {
		val = op.Val
		e.deliver(st, th, op, nil)
	} else {
		val = op.Cases[a.Case].Val
		e.deliver(st, th, op, selectResult(op, a.Case, false, nil))
	}
	if pop.Kind == VRecv {
		e.deliver(st, pt, pop, recvResult(pop, val, true))
	} else {
		e.deliver(st, pt, pop, selectResult(pop, a.PCase, true, val))
	}
}

// ---------------------------------------------------------------- running threads to their next visible op

func (e *Engine) removeExited(st *State) {
	n := 0
	for _, t := range st.Threads {
		if t.Exited {
			n++
		}
	}
	if n == 0 {
		return
	}
	out := make([]*Thread, 0, len(st.Threads)-n)
	for _, t := range st.Threads {
		if t.Exited {
			st.ExitedBlocks += t.Blocks
			if e.RaceCheck && len(t.Open) > 0 && len(st.Ghosts)+len(t.Open) <= maxGhosts {
				gs := append([]ghostRec(nil), st.Ghosts...)
				for i, a := range t.Open {
					gs = append(gs, ghostRec{a, t.ID, t.Blocks, i})
				}
				st.Ghosts = gs
			}
			continue
		}
		out = append(out, t)
	}
	st.Threads = out
}

// runInvisible runs thread id until its next visible operation (or exit) in every forked successor.
func (e *Engine) runInvisible(st *State, id ThreadID) []*State {
	var out []*State
	work := []*State{st}
	for len(work) > 0 {
		s := work[len(work)-1]
		work = work[:len(work)-1]
		func() {
			defer func() {
				if r := recover(); r != nil {
					if _, ok := r.(deadSig); ok {
						s.Dead = true
						return
					}
					if sig, ok := r.(abortSig); ok && sig.kind == "UNMODELLED" {
						// this path ran into something the engine does not model: the run is inconclusive, but the
						// other paths are still explored (they may hold a violation)
						e.inconclusive(sig.kind + ": " + sig.msg)
						s.Dead = true
						return
					}
					panic(r)
				}
			}()
			for !s.Dead {
				ti := s.threadIdx(id)
				if ti < 0 {
					out = append(out, s)
					return
				}
				th := s.Threads[ti]
				if th.Pending != nil {
					out = append(out, s)
					return
				}
				if !th.Started {
					w := s.threadW(ti)
					w.Pending = &VisOp{Kind: VStart}
					out = append(out, s)
					return
				}
				r := e.step(s, ti)
				switch r.kind {
				case stCont:
					if t2 := s.Threads[ti]; t2.Exited {
						e.threadExit(s, t2)
						out = append(out, s)
						return
					}
				case stFork:
					work = append(work, r.states...)
					return
				case stVisible:
					if e.MergeReleases && e.fireLeftMover(s, id) {
						continue
					}
					out = append(out, s)
					return
				case stExit:
					e.threadExit(s, s.Threads[ti])
					out = append(out, s)
					return
				case stDead:
					return
				}
			}
		}()
	}
	return out
}

// fireLeftMover executes the thread's pending operation at once when it is a pure release
// (Unlock, RUnlock, WaitGroup.Add/Done): such operations never block, only enable other threads and
// commute to the left of every other thread's operations (Lipton reduction; nothing in the code under
// test observes a lock or a WaitGroup without blocking on it), so no scheduling point is needed before them.
func (e *Engine) fireLeftMover(s *State, id ThreadID) (fired bool) {
	ti := s.threadIdx(id)
	th := s.Threads[ti]
	op := th.Pending
	if op == nil || th.Atomic > 0 {
		return false
	}
	switch op.Kind {
	case VUnlock, VRUnlock, VWgAdd:
	default:
		return false
	}
	// only with concrete synchronisation state (no data fork inside the release)
	o := s.obj(op.P.Obj)
	for i := 0; i < 3 && op.P.Off+i < len(o.Cells); i++ {
		if t, ok := o.Cells[op.P.Off+i].(*term.Term); ok && !t.IsConst() {
			return false
		}
		if op.Kind != VUnlock || !strings.Contains(op.Name, "RWMutex") {
			break
		}
	}
	if op.Delta != nil && !op.Delta.IsConst() {
		return false
	}
	w := s.threadW(ti)
	w.Pending = nil
	markReleased(w, op.P)
	e.curThread, e.curInstr = w.ID, op.Instr
	e.addTrace(s, fmt.Sprintf("%s %s (no scheduling point)", e.threadName(id), e.opDesc(s, op, FireAlt{Case: -1})), id)
	e.Stats.MergedReleases++
	func() {
		defer func() {
			if r := recover(); r != nil {
				if sig, ok := r.(goPanicSig); ok {
					val := sig.val
					if val == nil {
						val = e.errorIface(sig.msg)
					}
					e.startPanic(s, w, val, sig.msg, e.pos(op.Instr))
					return
				}
				panic(r)
			}
		}()
		e.fireLocal(s, w, op, -1)
	}()
	return true
}

func (e *Engine) threadExit(st *State, th *Thread) {
	if th.Panic != nil && !th.Panic.Recovered {
		msg := th.Panic.Msg
		if msg == "" {
			msg = e.panicText(st, th.Panic.Val)
		}
		e.report(st, &Violation{Kind: "panic", Label: "uncaught panic in " + e.threadName(th.ID) + ": " + msg, Cond: st.PC, Site: th.Panic.Site})
	}
	e.removeExited(st)
}

func (e *Engine) panicText(st *State, v Value) string {
	if iv, ok := v.(Iface); ok && iv.T != nil {
		if t, ok := iv.V.(*term.Term); ok {
			return iv.T.String() + ": " + t.String()
		}
		return iv.T.String()
	}
	return showValue(v)
}

// ---------------------------------------------------------------- exploration

type cfgEntry struct {
	states []*State
}

type pendingState struct {
	rank int
	key  string
	st   *State
}

type Explorer struct {
	e       *Engine
	levels  map[int]map[string]*cfgEntry
	minRank int
	maxRank int
	local   *[]pendingState // worker mode: successors are collected here and inserted by the coordinator
}

func (e *Engine) addTrace(st *State, step string, id ThreadID) {
	st.Trace = &TraceNode{Parent: st.Trace, Step: step, Thread: id}
}

func (x *Explorer) add(st *State) {
	if len(st.Threads) == 0 && len(st.Quiesce) == 0 {
		x.e.terminal(st)
		return
	}
	r := st.rank()
	k := x.e.configKey(st)
	if x.local != nil {
		*x.local = append(*x.local, pendingState{r, k, st})
		return
	}
	x.insert(r, k, st)
}

func (x *Explorer) insert(r int, k string, st *State) {
	lv := x.levels[r]
	if lv == nil {
		lv = map[string]*cfgEntry{}
		x.levels[r] = lv
	}
	en := lv[k]
	if en == nil {
		en = &cfgEntry{}
		lv[k] = en
	}
	en.states = append(en.states, st)
	if r > x.maxRank {
		x.maxRank = r
	}
}

func addStats(a *Stats, b Stats) {
	a.Steps += b.Steps
	a.Forks += b.Forks
	a.Calls += b.Calls
	a.BackEdges += b.BackEdges
	a.Configs += b.Configs
	a.Transitions += b.Transitions
	a.Merges += b.Merges
	a.Selectors += b.Selectors
	a.Unmergeable += b.Unmergeable
	a.Terminals += b.Terminals
	a.Deadlocks += b.Deadlocks
	a.Paths += b.Paths
	a.Completed += b.Completed
	a.Asserts += b.Asserts
	a.AssertQueries += b.AssertQueries
	a.IdenticalMerges += b.IdenticalMerges
	a.MergedReleases += b.MergedReleases
}

// Explore runs the scheduler from st until all configurations are exhausted. Configurations of one rank are
// independent of each other (every transition increases the rank), so a level is expanded by e.Workers
// goroutines in parallel; their successors are inserted into the later levels by the coordinator.
func (e *Engine) Explore(st *State) {
	x := &Explorer{e: e, levels: map[int]map[string]*cfgEntry{}}
	for _, s := range e.settle(st) {
		x.add(s)
	}
	lastProg := time.Now()
	var firstViolation time.Time
	for r := 0; r <= x.maxRank; r++ {
		lv := x.levels[r]
		if lv == nil {
			continue
		}
		delete(x.levels, r)
		keys := make([]string, 0, len(lv))
		for k := range lv {
			keys = append(keys, k)
		}
		sort.Strings(keys)
		if len(keys) > e.Stats.MaxFrontier {
			e.Stats.MaxFrontier = len(keys)
		}
		e.Stats.Configs += len(keys)
		if e.Stats.Configs > e.MaxConfigs {
			abort("UNWIND", "configuration bound %d exceeded", e.MaxConfigs)
		}
		if !e.Deadline.IsZero() && time.Now().After(e.Deadline) {
			abort("UNWIND", "time budget exceeded after %d configurations", e.Stats.Configs)
		}
		// once a violation has been found the verdict is known: keep collecting further ones for a short while
		// only (a change that breaks the property often blows the state space up as well)
		e.mu.Lock()
		nv := len(*e.viol)
		e.mu.Unlock()
		if nv > 0 && e.AfterViolation > 0 {
			if firstViolation.IsZero() {
				firstViolation = time.Now()
			} else if time.Since(firstViolation) > e.AfterViolation {
				e.Stats.StoppedAfterViolation = true
				break
			}
		}
		if e.Progress && time.Since(lastProg) > 5*time.Second {
			lastProg = time.Now()
			fmt.Fprintf(e.Log, "   .. rank %d/%d configs=%d trans=%d level=%d unmergeable=%d queries=%d solver=%.1fs terms=%d\n",
				r, x.maxRank, e.Stats.Configs, e.Stats.Transitions, len(keys), e.Stats.Unmergeable,
				e.Solver.Stats.Queries, e.Solver.Stats.Time.Seconds(), term.NumTerms())
		}
		workers := e.Workers
		if e.MergeFull || len(keys) < 32 {
			workers = 1
		}
		if workers <= 1 {
			for _, k := range keys {
				en := lv[k]
				var sts []*State
				if e.NoMerge {
					sts = en.states
				} else {
					sts = e.mergeAll(en.states)
				}
				for _, s := range sts {
					x.expand(s)
				}
			}
			continue
		}
		// parallel level
		results := make([][]pendingState, workers)
		wstats := make([]Stats, workers)
		wfuncs := make([]map[*ssa.Function]bool, workers)
		var next int64
		var wg sync.WaitGroup
		var failMu sync.Mutex
		var failure interface{}
		for w := 0; w < workers; w++ {
			wg.Add(1)
			go func(w int) {
				defer wg.Done()
				we := *e
				we.Stats = Stats{}
				we.inSession = false
				we.localFuncs = map[*ssa.Function]bool{}
				wx := &Explorer{e: &we, local: &results[w]}
				defer func() {
					wstats[w] = we.Stats
					wfuncs[w] = we.localFuncs
					if r := recover(); r != nil {
						if we.inSession {
							we.inSession = false
							we.solverMu.Unlock()
						}
						failMu.Lock()
						if failure == nil {
							failure = r
						}
						failMu.Unlock()
					}
				}()
				for {
					i := int(atomic.AddInt64(&next, 1)) - 1
					if i >= len(keys) {
						return
					}
					failMu.Lock()
					stop := failure != nil
					failMu.Unlock()
					if stop {
						return
					}
					en := lv[keys[i]]
					var sts []*State
					if we.NoMerge {
						sts = en.states
					} else {
						sts = we.mergeAll(en.states)
					}
					for _, s := range sts {
						wx.expand(s)
					}
				}
			}(w)
		}
		wg.Wait()
		for w := 0; w < workers; w++ {
			addStats(&e.Stats, wstats[w])
			for f := range wfuncs[w] {
				e.Funcs[f.String()] = true
			}
		}
		if failure != nil {
			panic(failure)
		}
		for w := 0; w < workers; w++ {
			for _, ps := range results[w] {
				x.insert(ps.rank, ps.key, ps.st)
			}
		}
	}
}

// settle runs every thread that is not at a visible operation (initially: main) to its next one.
func (e *Engine) settle(st *State) []*State {
	cur := []*State{st}
	for {
		progressed := false
		var next []*State
		for _, s := range cur {
			var need ThreadID
			for _, t := range s.Threads {
				if t.Pending == nil && !t.Exited {
					need = t.ID
					break
				}
			}
			if need == 0 {
				next = append(next, s)
				continue
			}
			progressed = true
			next = append(next, e.runInvisible(s, need)...)
		}
		cur = next
		if !progressed {
			return cur
		}
	}
}

func (x *Explorer) expand(st *State) {
	e := x.e
	// compute enabled alternatives; symbolic enabledness forks the state
	var alts []FireAlt
	var split []*State
	func() {
		defer func() {
			if r := recover(); r != nil {
				switch sig := r.(type) {
				case splitBool:
					split = e.forkBool(st, sig.c).states
				case splitChoice:
					split = e.forkChoice(st, sig.c).states
				case splitVals:
					split = e.forkVals(st, sig.t, sig.vals).states
				default:
					panic(r)
				}
			}
		}()
		for _, th := range st.Threads {
			alts = append(alts, e.alts(st, th)...)
		}
	}()
	if split != nil {
		for _, s := range split {
			x.expand(s)
		}
		return
	}
	if len(alts) == 0 {
		e.terminal(st)
		return
	}
	if e.Timed {
		e.annotateTimed(st, alts)
	}
	for i, a := range alts {
		var s *State
		if i == len(alts)-1 {
			s = st
		} else {
			s = st.fork()
		}
		e.Stats.Transitions++
		x.fireAndRun(s, a)
	}
}

func (x *Explorer) fireAndRun(s *State, a FireAlt) {
	e := x.e
	ti := s.threadIdx(a.Thread)
	op := s.Threads[ti].Pending
	desc := fmt.Sprintf("%s %s", e.threadName(a.Thread), e.opDesc(s, op, a))
	e.addTrace(s, desc, a.Thread)
	// gates for the native schedule replay: the receiver's site first (it must be waiting), then the firing site
	if a.Partner != 0 {
		if pi := s.threadIdx(a.Partner); pi >= 0 {
			if pop := s.Threads[pi].Pending; pop != nil && pop.Instr != nil && !pop.FromDefer {
				s.Trace.Gates = append(s.Trace.Gates, e.pos(pop.Instr))
			}
		}
	}
	if op != nil && op.Instr != nil && !op.FromDefer && op.Kind != VStart {
		s.Trace.Gates = append(s.Trace.Gates, e.pos(op.Instr))
	}
	var after []*State
	func() {
		defer func() {
			if r := recover(); r != nil {
				switch sig := r.(type) {
				case deadSig:
					s.Dead = true
				case goPanicSig:
					th := s.threadW(s.threadIdx(a.Thread))
					val := sig.val
					if val == nil {
						val = e.errorIface(sig.msg)
					}
					e.startPanic(s, th, val, sig.msg, e.pos(op.Instr))
					after = []*State{s}
				case splitBool:
					// enabledness was concrete, but the effect needs a decision: redo on each fork
					s.undoFire(a, op)
					for _, f := range e.forkBool(s, sig.c).states {
						x.fireAndRunNoTrace(f, a)
					}
				case splitVals:
					s.undoFire(a, op)
					for _, f := range e.forkVals(s, sig.t, sig.vals).states {
						x.fireAndRunNoTrace(f, a)
					}
				case splitChoice:
					s.undoFire(a, op)
					for _, f := range e.forkChoice(s, sig.c).states {
						x.fireAndRunNoTrace(f, a)
					}
				default:
					panic(r)
				}
				return
			}
			after = []*State{s}
		}()
		e.fire(s, a)
	}()
	for _, s1 := range after {
		if s1.Dead {
			continue
		}
		res := e.runInvisible(s1, a.Thread)
		if a.Partner != 0 {
			var res2 []*State
			for _, s2 := range res {
				res2 = append(res2, e.runInvisible(s2, a.Partner)...)
			}
			res = res2
		}
		// newly spawned threads and anything else not at a visible op
		for _, s2 := range res {
			for _, s3 := range e.settle(s2) {
				if !s3.Dead {
					x.add(s3)
				}
			}
		}
	}
}

func (x *Explorer) fireAndRunNoTrace(s *State, a FireAlt) {
	s.Trace = s.Trace.Parent
	x.fireAndRun(s, a)
}

// undoFire restores the pending op (fire clears it and counts a block) so the firing can be redone after a split.
func (s *State) undoFire(a FireAlt, op *VisOp) {
	ti := s.threadIdx(a.Thread)
	th := s.threadW(ti)
	th.Pending = op
	th.Blocks--
}

func (e *Engine) opDesc(st *State, op *VisOp, a FireAlt) string {
	if op == nil {
		return "?"
	}
	s := visNames[op.Kind]
	if op.Kind == VAtomicCall {
		s += " " + op.Name
	}
	if op.Kind == VSelect {
		s += fmt.Sprintf(" case %d", a.Case)
	}
	if a.Partner != 0 {
		s += " <-> " + e.threadName(a.Partner)
	}
	if op.FromDefer {
		s += " (deferred)"
	}
	if op.Instr != nil {
		s += " @" + e.pos(op.Instr)
	}
	return s
}

// terminal: no thread can move.
func (e *Engine) terminal(st *State) {
	e.Stats.Terminals++
	var blocked, sites []string
	must := false
	for _, th := range st.Threads {
		if th.Exited {
			continue
		}
		d := e.threadName(th.ID) + " blocked at " + e.opDesc(st, th.Pending, FireAlt{Case: -1})
		blocked = append(blocked, d)
		if th.Pending != nil {
			// line-number free: entry function of the thread, kind of the blocked operation, function it is in
			in := "?"
			if th.Pending.Instr != nil && th.Pending.Instr.Parent() != nil {
				in = th.Pending.Instr.Parent().String()
			} else if f := th.top(); f != nil {
				in = f.Fn.String()
			}
			sites = append(sites, e.threadEntryFn(th)+" blocked in "+visNames[th.Pending.Kind]+" at "+in)
		}
		if th.MustFinish {
			must = true
		}
	}
	if must {
		e.Stats.Deadlocks++
		e.report(st, &Violation{Kind: "deadlock", Label: "thread that must finish is blocked forever", Cond: st.PC, Trace: blocked, Blocked: sites})
	}
	// quiescence callbacks run on a fresh thread
	if len(st.Quiesce) > 0 {
		cbs := st.Quiesce
		st.Quiesce = nil
		e.runQuiesce(st, cbs)
	}
	e.Stats.Paths++
	e.noteWitness(st)
}

func (e *Engine) runQuiesce(st *State, cbs []Value) {
	id := e.internThread(threadKey{0, "quiesce", 0})
	qt := &Thread{ID: id, Started: true, ep: st.ep}
	st.Threads = append(st.Threads, qt)
	work := []*State{st}
	for i := range cbs {
		var next []*State
		for _, s := range work {
			ti := s.threadIdx(id)
			th := s.threadW(ti)
			th.Exited = false
			cb := e.pick(s, cbs[i]).(*Closure)
			e.callFunction(s, th, cb, nil, nil, FQuiesce)
			next = append(next, e.runToEnd(s, id)...)
		}
		work = next
	}
	for _, s := range work {
		e.noteWitness(s)
	}
}

// runToEnd runs thread id alone until it exits; visible ops fire inline.
func (e *Engine) runToEnd(st *State, id ThreadID) []*State {
	var out []*State
	work := []*State{st}
	for len(work) > 0 {
		s := work[len(work)-1]
		work = work[:len(work)-1]
		func() {
			defer func() {
				if r := recover(); r != nil {
					if _, ok := r.(deadSig); ok {
						s.Dead = true
						return
					}
					if sig, ok := r.(abortSig); ok && sig.kind == "UNMODELLED" {
						// this path ran into something the engine does not model: the run is inconclusive, but the
						// other paths are still explored (they may hold a violation)
						e.inconclusive(sig.kind + ": " + sig.msg)
						s.Dead = true
						return
					}
					panic(r)
				}
			}()
			for !s.Dead {
				ti := s.threadIdx(id)
				th := s.Threads[ti]
				if len(th.Frames) == 0 {
					out = append(out, s)
					return
				}
				r := e.step(s, ti)
				switch r.kind {
				case stCont:
				case stFork:
					work = append(work, r.states...)
					return
				case stVisible:
					w := s.threadW(ti)
					op := w.Pending
					w.Pending = nil
					e.fireInlineSafe(s, w, op)
				case stExit:
					t2 := s.threadW(ti)
					if t2.Panic != nil && !t2.Panic.Recovered {
						e.report(s, &Violation{Kind: "panic", Label: "panic in quiescence check: " + t2.Panic.Msg, Cond: s.PC})
					}
					out = append(out, s)
					return
				case stDead:
					return
				}
			}
		}()
	}
	return out
}

func (e *Engine) fireInlineSafe(st *State, th *Thread, op *VisOp) {
	defer func() {
		if r := recover(); r != nil {
			if sig, ok := r.(goPanicSig); ok {
				val := sig.val
				if val == nil {
					val = e.errorIface(sig.msg)
				}
				e.startPanic(st, th, val, sig.msg, e.pos(op.Instr))
				return
			}
			panic(r)
		}
	}()
	e.fireInline(st, th, op)
}

// timerFired: a receive from a timer channel happens no earlier than the timer's deadline.
func (e *Engine) timerFired(st *State, o *Object) {
	if o.TimerAt == nil || len(o.Buf) == 0 {
		return
	}
	if !e.Timed {
		e.advanceClock(st, o.TimerAt)
		return
	}
	// timed mode: the timer fires exactly when it is due (or now, if that moment has passed)
	last := st.Clock
	if last == nil {
		last = term.BVC(64, 0)
	}
	a := e.curAlt
	if a.Frozen {
		e.assumeIn(st, term.BVCmp(term.OpULe, o.TimerAt, last)) // time cannot pass: it must have expired already
		return
	}
	now := term.Ite(term.BVCmp(term.OpULe, last, o.TimerAt), o.TimerAt, last)
	for _, d := range a.OtherDues {
		e.assumeIn(st, term.BVCmp(term.OpULe, now, d)) // an earlier timer somebody waits for fires first
	}
	st.Clock = now
}
