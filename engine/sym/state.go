package sym

import (
	"fmt"
	"go/types"
	"sync"

	"golang.org/x/tools/go/ssa"

	"gosym/term"
)

type ObjKind uint8

const (
	OMem ObjKind = iota
	OMap
	OChan
	OIter
)

type MapEnt struct {
	K Value
	V Value
	G *term.Term // present guard
}

type epoch struct{ _ byte }

type Object struct {
	Kind  ObjKind
	Cells []Value  // OMem
	Ents  []MapEnt // OMap
	// OChan
	Buf     []Value
	Cap     int
	Closed  *term.Term
	Snap    *Snap      // codec token: snapshot carried by this byte object
	TimerAt *term.Term // timer channel: receiving moves the clock to at least this instant
	// OIter
	IterMap ObjID
	IterIdx int
	IterStr *term.Term

	T    types.Type // element / allocated type (diagnostics, zeroing)
	Site string
	ep   *epoch
	hash uint64
}

func (o *Object) clone(ep *epoch) *Object {
	// field-wise copy: the cached hash of o may be written concurrently by another worker
	c := Object{Kind: o.Kind, Cells: o.Cells, Ents: o.Ents, Buf: o.Buf, Cap: o.Cap, Closed: o.Closed, Snap: o.Snap,
		TimerAt: o.TimerAt, IterMap: o.IterMap, IterIdx: o.IterIdx, IterStr: o.IterStr, T: o.T, Site: o.Site}
	c.ep = ep
	if o.Cells != nil {
		c.Cells = append([]Value(nil), o.Cells...)
	}
	if o.Ents != nil {
		c.Ents = append([]MapEnt(nil), o.Ents...)
	}
	if o.Buf != nil {
		c.Buf = append([]Value(nil), o.Buf...)
	}
	return &c
}

type Deferred struct {
	Fn   Value // *Closure (or Choice thereof)
	Args []Value
	// interface method invocation
	Method *types.Func
	Recv   Value
	Site   ssa.Instruction
}

type FrameKind uint8

const (
	FNormal   FrameKind = iota
	FDeferred           // a deferred call: result dropped
	FQuiesce            // AtQuiescence callback
)

type Frame struct {
	Fn        *ssa.Function
	Info      *fnInfo
	Block     int
	IP        int
	Prev      int // predecessor block index, -1 at entry
	Regs      []Value
	Defers    []Deferred
	Kind      FrameKind
	Unwind    bool // running defers because of a panic
	Recovered bool // the panic was recovered; remaining defers run, then the function returns
	Atomic    bool // this frame's extent is an atomic section (model functions)
	Loops     int  // back-edges taken in this frame
	hash      uint64
	ep        *epoch
}

func (f *Frame) clone(ep *epoch) *Frame {
	c := Frame{Fn: f.Fn, Info: f.Info, Block: f.Block, IP: f.IP, Prev: f.Prev, Regs: f.Regs, Defers: f.Defers, Kind: f.Kind,
		Unwind: f.Unwind, Recovered: f.Recovered, Atomic: f.Atomic, Loops: f.Loops}
	c.ep = ep
	c.Regs = append([]Value(nil), f.Regs...)
	if f.Defers != nil {
		c.Defers = append([]Deferred(nil), f.Defers...)
	}
	return &c
}

type PanicState struct {
	Val       Value // Iface
	Recovered bool
	Msg       string // engine panic description
	Site      string
}

type ThreadID int32

type spawnBar struct {
	parent ThreadID
	blocks int
	n      int
}

type Thread struct {
	ID         ThreadID
	Frames     []*Frame
	Blocks     int
	NAlloc     int
	NGo        int
	Panic      *PanicState
	Exited     bool
	Started    bool
	MustFinish bool
	Atomic     int // nesting depth of atomic sections
	Pending    *VisOp
	Bars       []spawnBar  // spawn barriers: accesses of the ancestors that precede the go statements happen-before this thread
	Held       []Ptr       // mutexes / wait groups this thread holds or has waited for (race check)
	Open       []accessRec // cells accessed since the last visible operation (race check)
	Start      *StartCall
	Name       string
	ep         *epoch
}

func (t *Thread) clone(ep *epoch) *Thread {
	c := *t
	c.ep = ep
	c.Frames = append([]*Frame(nil), t.Frames...)
	return &c
}

func (t *Thread) top() *Frame {
	if len(t.Frames) == 0 {
		return nil
	}
	return t.Frames[len(t.Frames)-1]
}

type TraceNode struct {
	Parent *TraceNode
	Step   string
	Thread ThreadID
	Pos    string
	Gates  []string // source positions (file:line) to be passed, in order, when this step is replayed natively
	// merge node
	Sel  *term.Term
	A, B *TraceNode
}

type Violation struct {
	Label      string
	Kind       string // assert, panic, deadlock, race, unwind
	Model      map[string]string
	Trace      []string
	Cond       *term.Term
	Tags       map[string]string
	Obs        map[string]string
	Site       string
	Gates      []string
	ModelTyped map[string]interface{}
	ObsTyped   map[string]interface{}
	Blocked    []string
}

// heapBase is an immutable layer of the heap shared by many states.
type heapBase struct {
	m    map[ObjID]*Object
	sum  uint64
	once sync.Once
}

type State struct {
	PC           *term.Term
	base         *heapBase         // shared, never written
	over         map[ObjID]*Object // this state's objects shadowing / extending base
	knownShared  bool
	Threads      []*Thread
	Known        map[*term.Term]bool
	Trace        *TraceNode
	Quiesce      []Value // AtQuiescence callbacks (closures)
	Tags         []TagEntry
	Obs          []Observation
	Clock        *term.Term
	ExitedBlocks int
	Ghosts       []ghostRec // race check: final-block accesses of exited threads
	Dead         bool
	ep           *epoch
}

func newState() *State {
	return &State{PC: term.True, base: &heapBase{m: map[ObjID]*Object{}}, over: map[ObjID]*Object{}, Known: map[*term.Term]bool{}, ep: &epoch{}}
}

func (s *State) fork() *State {
	if len(s.over) > 48 {
		// flatten the overlay into a new shared base layer
		nb := &heapBase{m: make(map[ObjID]*Object, len(s.base.m)+len(s.over))}
		for k, v := range s.base.m {
			nb.m[k] = v
		}
		for k, v := range s.over {
			nb.m[k] = v
		}
		s.base = nb
		s.over = map[ObjID]*Object{}
	}
	c := *s
	c.over = make(map[ObjID]*Object, len(s.over)+8)
	for k, v := range s.over {
		c.over[k] = v
	}
	c.Threads = append([]*Thread(nil), s.Threads...)
	s.knownShared = true
	c.knownShared = true
	c.Quiesce = s.Quiesce[:len(s.Quiesce):len(s.Quiesce)]
	c.Tags = s.Tags[:len(s.Tags):len(s.Tags)]
	c.Obs = s.Obs[:len(s.Obs):len(s.Obs)]
	c.ep = &epoch{}
	s.ep = &epoch{}
	return &c
}

func (s *State) lookupObj(id ObjID) *Object {
	if o, ok := s.over[id]; ok {
		return o
	}
	return s.base.m[id]
}

func (s *State) setObj(id ObjID, o *Object) { s.over[id] = o }

// eachObj visits every object of the heap.
func (s *State) eachObj(f func(ObjID, *Object)) {
	for id, o := range s.over {
		f(id, o)
	}
	for id, o := range s.base.m {
		if _, sh := s.over[id]; !sh {
			f(id, o)
		}
	}
}

// eachObjDiff visits the objects of s that may differ from those of n (all of them unless the
// two states share their base layer, in which case only the overlays matter).
func (s *State) eachObjDiff(n *State, f func(ObjID, *Object)) {
	if s.base == n.base {
		for id, o := range s.over {
			f(id, o)
		}
		for id := range n.over {
			if _, ok := s.over[id]; !ok {
				if o := s.base.m[id]; o != nil {
					f(id, o)
				}
			}
		}
		return
	}
	s.eachObj(f)
}

func (s *State) obj(id ObjID) *Object {
	o := s.lookupObj(id)
	if o == nil {
		panic(fmt.Sprintf("internal: no object %d", id))
	}
	return o
}

func (s *State) objW(id ObjID) *Object {
	o := s.obj(id)
	if o.ep != s.ep {
		o = o.clone(s.ep)
		s.over[id] = o
	}
	o.hash = 0
	return o
}

func (s *State) threadIdx(id ThreadID) int {
	for i, t := range s.Threads {
		if t.ID == id {
			return i
		}
	}
	return -1
}

func (s *State) threadW(i int) *Thread {
	t := s.Threads[i]
	if t.ep != s.ep {
		t = t.clone(s.ep)
		s.Threads[i] = t
	}
	return t
}

// topW returns the writable top frame of writable thread t.
func (s *State) topW(t *Thread) *Frame {
	n := len(t.Frames) - 1
	f := t.Frames[n]
	if f.ep != s.ep {
		f = f.clone(s.ep)
		t.Frames[n] = f
	}
	f.hash = 0
	return f
}

func (s *State) assume(c *term.Term) {
	s.PC = term.And(s.PC, c)
	s.learn(c, true)
}

func (s *State) learn(c *term.Term, v bool) {
	if c.IsConst() {
		return
	}
	if c.Op == term.OpNot {
		s.learn(c.Args[0], !v)
		return
	}
	if v && c.Op == term.OpAnd {
		for _, a := range c.Args {
			s.learn(a, true)
		}
		return
	}
	if !v && c.Op == term.OpOr {
		for _, a := range c.Args {
			s.learn(a, false)
		}
		return
	}
	if s.knownShared {
		k := make(map[*term.Term]bool, len(s.Known)+4)
		for a, b := range s.Known {
			k[a] = b
		}
		s.Known = k
		s.knownShared = false
	}
	s.Known[c] = v
}

// simp replaces a Boolean term by a constant when the literals known in this state decide it.
func (s *State) simp(c *term.Term) *term.Term {
	if c.IsConst() {
		return c
	}
	if v, ok := s.truth(c); ok {
		return term.BoolC(v)
	}
	return c
}

// truth evaluates a Boolean term under the literals known in this state.
// Returns (value, known).
func (s *State) truth(c *term.Term) (bool, bool) {
	return s.truthD(c, 6)
}

func (s *State) truthD(c *term.Term, d int) (bool, bool) {
	if c == term.True {
		return true, true
	}
	if c == term.False {
		return false, true
	}
	if v, ok := s.Known[c]; ok {
		return v, true
	}
	if d == 0 {
		return false, false
	}
	switch c.Op {
	case term.OpNot:
		v, ok := s.truthD(c.Args[0], d-1)
		return !v, ok
	case term.OpAnd:
		all := true
		for _, a := range c.Args {
			v, ok := s.truthD(a, d-1)
			if ok && !v {
				return false, true
			}
			if !ok {
				all = false
			}
		}
		if all {
			return true, true
		}
	case term.OpOr:
		all := true
		for _, a := range c.Args {
			v, ok := s.truthD(a, d-1)
			if ok && v {
				return true, true
			}
			if !ok {
				all = false
			}
		}
		if all {
			return false, true
		}
	case term.OpIte:
		if c.Sort == term.Bool {
			v, ok := s.truthD(c.Args[0], d-1)
			if ok {
				if v {
					return s.truthD(c.Args[1], d-1)
				}
				return s.truthD(c.Args[2], d-1)
			}
		}
	}
	return false, false
}

// ---------------------------------------------------------------- function info

type fnInfo struct {
	fn    *ssa.Function
	index map[ssa.Value]int
	nregs int
	// per block: number of leading phi nodes
	nphi []int
}

var fnInfos sync.Map // *ssa.Function -> *fnInfo

func infoOf(fn *ssa.Function) *fnInfo {
	if fi, ok := fnInfos.Load(fn); ok {
		return fi.(*fnInfo)
	}
	fi := &fnInfo{fn: fn, index: map[ssa.Value]int{}}
	n := 0
	for _, p := range fn.Params {
		fi.index[p] = n
		n++
	}
	for _, p := range fn.FreeVars {
		fi.index[p] = n
		n++
	}
	for _, b := range fn.Blocks {
		np := 0
		for _, in := range b.Instrs {
			if _, ok := in.(*ssa.Phi); ok {
				np++
			}
			if v, ok := in.(ssa.Value); ok {
				fi.index[v] = n
				n++
			}
		}
		fi.nphi = append(fi.nphi, np)
	}
	fi.nregs = n
	if old, loaded := fnInfos.LoadOrStore(fn, fi); loaded {
		return old.(*fnInfo)
	}
	return fi
}
