package sym

import (
	"fmt"
	"go/types"
	"strings"
	"sync"

	"golang.org/x/tools/go/ssa"
	"golang.org/x/tools/go/types/typeutil"

	"gosym/term"
)

// Value is one of:
//
//	*term.Term   scalar: bool, integers (bit-vectors), string, float64
//	Ptr, Slice, MapRef, ChanRef, IterRef, *Closure, Iface
//	Struct (flattened leaves), Tuple
//	*Choice (merged alternatives of non-scalar values)
type Value interface{}

type ObjID int32

type Ptr struct {
	Obj ObjID // 0 = nil
	Off int
}

type Slice struct {
	Obj           ObjID // 0 = nil slice
	Off, Len, Cap int
}

type MapRef struct{ Obj ObjID }
type ChanRef struct{ Obj ObjID }
type IterRef struct{ Obj ObjID }

type Closure struct {
	Fn  *ssa.Function // nil = nil func
	Env []Value
	// Bound intrinsic / builtin name when Fn == nil and Name != ""
	Name string
}

type Iface struct {
	T types.Type // nil = nil interface
	V Value
}

type Struct []Value
type Tuple []Value

type Alt struct {
	G *term.Term
	V Value
}

type Choice struct{ Alts []Alt }

var nilClosure = &Closure{}

// ---------------------------------------------------------------- layout

type layoutInfo struct {
	size   int
	fields []int // offsets of struct fields
}

var (
	layouts     typeutil.Map
	layoutsMu   sync.Mutex
	layoutCache sync.Map // types.Type (pointer identity) -> *layoutInfo
)

func isNamed(t types.Type, pkg, name string) bool {
	n, ok := t.(*types.Named)
	if !ok {
		return false
	}
	o := n.Obj()
	return o.Pkg() != nil && o.Pkg().Path() == pkg && o.Name() == name
}

// specialLeaves returns the number of leaf cells for intrinsic sync types, or -1.
func specialLeaves(t types.Type) int {
	n, ok := t.(*types.Named)
	if !ok || n.Obj().Pkg() == nil {
		return -1
	}
	if n.Obj().Pkg().Path() == "sync" {
		switch n.Obj().Name() {
		case "Mutex":
			return 1 // locked Bool
		case "RWMutex":
			return 3 // readers BV64, writer Bool, writersWaiting BV64
		case "WaitGroup":
			return 1 // counter BV64
		case "Map":
			return 1 // MapRef
		}
	}
	return -1
}

func layoutOf(t types.Type) *layoutInfo {
	if l, ok := layoutCache.Load(t); ok {
		return l.(*layoutInfo)
	}
	layoutsMu.Lock()
	l := layouts.At(t)
	layoutsMu.Unlock()
	if l != nil {
		layoutCache.Store(t, l)
		return l.(*layoutInfo)
	}
	li := &layoutInfo{}
	if n := specialLeaves(t); n >= 0 {
		li.size = n
	} else {
		switch u := t.Underlying().(type) {
		case *types.Struct:
			off := 0
			for i := 0; i < u.NumFields(); i++ {
				li.fields = append(li.fields, off)
				off += layoutOf(u.Field(i).Type()).size
			}
			li.size = off
		case *types.Array:
			li.size = int(u.Len()) * layoutOf(u.Elem()).size
		case *types.Tuple:
			li.size = 1
		default:
			li.size = 1
		}
	}
	layoutsMu.Lock()
	if l := layouts.At(t); l != nil {
		li = l.(*layoutInfo)
	} else {
		layouts.Set(t, li)
	}
	layoutsMu.Unlock()
	layoutCache.Store(t, li)
	return li
}

func sizeOf(t types.Type) int { return layoutOf(t).size }

func bvWidth(b *types.Basic) (w int, signed bool) {
	switch b.Kind() {
	case types.Int8:
		return 8, true
	case types.Int16:
		return 16, true
	case types.Int32, types.UntypedRune:
		return 32, true
	case types.Int, types.Int64, types.UntypedInt:
		return 64, true
	case types.Uint8:
		return 8, false
	case types.Uint16:
		return 16, false
	case types.Uint32:
		return 32, false
	case types.Uint, types.Uint64, types.Uintptr:
		return 64, false
	}
	return 0, false
}

// appendZero appends the zero leaves for type t.
func appendZero(out []Value, t types.Type) []Value {
	if n := specialLeaves(t); n >= 0 {
		nm := t.(*types.Named).Obj().Name()
		switch nm {
		case "Mutex":
			return append(out, term.False)
		case "RWMutex":
			return append(out, term.BVC(64, 0), term.False, term.BVC(64, 0))
		case "WaitGroup":
			return append(out, term.BVC(64, 0))
		case "Map":
			return append(out, MapRef{})
		}
	}
	switch u := t.Underlying().(type) {
	case *types.Basic:
		switch {
		case u.Info()&types.IsBoolean != 0:
			return append(out, term.False)
		case u.Info()&types.IsString != 0:
			return append(out, term.StrC(""))
		case u.Info()&types.IsFloat != 0:
			return append(out, term.F64C(0))
		case u.Info()&types.IsInteger != 0:
			w, _ := bvWidth(u)
			return append(out, term.BVC(w, 0))
		case u.Kind() == types.UnsafePointer:
			return append(out, Ptr{})
		case u.Kind() == types.UntypedNil:
			return append(out, Ptr{})
		}
		panic(fmt.Sprintf("zero: unsupported basic %v", u))
	case *types.Pointer:
		return append(out, Ptr{})
	case *types.Slice:
		return append(out, Slice{})
	case *types.Map:
		return append(out, MapRef{})
	case *types.Chan:
		return append(out, ChanRef{})
	case *types.Signature:
		return append(out, nilClosure)
	case *types.Interface:
		return append(out, Iface{})
	case *types.Struct:
		for i := 0; i < u.NumFields(); i++ {
			out = appendZero(out, u.Field(i).Type())
		}
		return out
	case *types.Array:
		for i := int64(0); i < u.Len(); i++ {
			out = appendZero(out, u.Elem())
		}
		return out
	case *types.Tuple:
		tu := make(Tuple, u.Len())
		for i := range tu {
			tu[i] = zeroValue(u.At(i).Type())
		}
		return append(out, tu)
	}
	panic(fmt.Sprintf("zero: unsupported type %v", t))
}

func isAggregate(t types.Type) bool {
	if specialLeaves(t) >= 0 {
		return true
	}
	switch t.Underlying().(type) {
	case *types.Struct, *types.Array:
		return true
	}
	return false
}

func zeroValue(t types.Type) Value {
	if isAggregate(t) {
		return Struct(appendZero(nil, t))
	}
	return appendZero(nil, t)[0]
}

// ---------------------------------------------------------------- equality (structural, for merging)

func sameValue(a, b Value) bool {
	switch x := a.(type) {
	case *term.Term:
		y, ok := b.(*term.Term)
		return ok && x == y
	case Ptr:
		y, ok := b.(Ptr)
		return ok && x == y
	case Slice:
		y, ok := b.(Slice)
		return ok && x == y
	case MapRef:
		y, ok := b.(MapRef)
		return ok && x == y
	case ChanRef:
		y, ok := b.(ChanRef)
		return ok && x == y
	case IterRef:
		y, ok := b.(IterRef)
		return ok && x == y
	case *Closure:
		y, ok := b.(*Closure)
		if !ok {
			return false
		}
		if x == y {
			return true
		}
		if x.Fn != y.Fn || x.Name != y.Name || len(x.Env) != len(y.Env) {
			return false
		}
		for i := range x.Env {
			if !sameValue(x.Env[i], y.Env[i]) {
				return false
			}
		}
		return true
	case Iface:
		y, ok := b.(Iface)
		if !ok {
			return false
		}
		if x.T == nil || y.T == nil {
			return x.T == nil && y.T == nil
		}
		return types.Identical(x.T, y.T) && sameValue(x.V, y.V)
	case Struct:
		y, ok := b.(Struct)
		if !ok || len(x) != len(y) {
			return false
		}
		for i := range x {
			if !sameValue(x[i], y[i]) {
				return false
			}
		}
		return true
	case Tuple:
		y, ok := b.(Tuple)
		if !ok || len(x) != len(y) {
			return false
		}
		for i := range x {
			if !sameValue(x[i], y[i]) {
				return false
			}
		}
		return true
	case *Choice:
		y, ok := b.(*Choice)
		if !ok || len(x.Alts) != len(y.Alts) {
			return false
		}
		if x == y {
			return true
		}
		for i := range x.Alts {
			if x.Alts[i].G != y.Alts[i].G || !sameValue(x.Alts[i].V, y.Alts[i].V) {
				return false
			}
		}
		return true
	case nil:
		return b == nil
	}
	panic(fmt.Sprintf("sameValue: unexpected %T", a))
}

func showValue(v Value) string {
	switch x := v.(type) {
	case *term.Term:
		return x.String()
	case Ptr:
		if x.Obj == 0 {
			return "nil"
		}
		return fmt.Sprintf("&o%d+%d", x.Obj, x.Off)
	case Slice:
		if x.Obj == 0 {
			return "[]nil"
		}
		return fmt.Sprintf("o%d[%d:%d:%d]", x.Obj, x.Off, x.Off+x.Len, x.Off+x.Cap)
	case MapRef:
		return fmt.Sprintf("map#%d", x.Obj)
	case ChanRef:
		return fmt.Sprintf("chan#%d", x.Obj)
	case IterRef:
		return fmt.Sprintf("iter#%d", x.Obj)
	case *Closure:
		if x.Fn == nil {
			if x.Name != "" {
				return "func:" + x.Name
			}
			return "func(nil)"
		}
		return "func:" + x.Fn.String()
	case Iface:
		if x.T == nil {
			return "iface(nil)"
		}
		return fmt.Sprintf("iface(%s:%s)", x.T, showValue(x.V))
	case Struct:
		var p []string
		for _, e := range x {
			p = append(p, showValue(e))
		}
		return "{" + strings.Join(p, ",") + "}"
	case Tuple:
		var p []string
		for _, e := range x {
			p = append(p, showValue(e))
		}
		return "(" + strings.Join(p, ",") + ")"
	case *Choice:
		var p []string
		for _, a := range x.Alts {
			p = append(p, a.G.String()+"->"+showValue(a.V))
		}
		return "choice[" + strings.Join(p, " | ") + "]"
	case nil:
		return "<none>"
	}
	return fmt.Sprintf("%T", v)
}
