// Package term implements hash-consed SMT terms with local simplification.
//
// Sorts: Bool, bit-vectors (width 1..64), String, Float64, Int (only as the
// result sort of str.len / argument of str.from_int and friends).
package term

import (
	"fmt"
	"math"
	"sort"
	"strconv"
	"strings"
	"sync"
)

type Kind uint8

const (
	KBool Kind = iota
	KBV
	KStr
	KF64
	KInt
)

type Sort struct {
	K Kind
	W uint8 // bit width for KBV
}

var (
	Bool = Sort{K: KBool}
	Str  = Sort{K: KStr}
	F64  = Sort{K: KF64}
	Int  = Sort{K: KInt}
)

func BV(w int) Sort { return Sort{K: KBV, W: uint8(w)} }

func (s Sort) SMT() string {
	switch s.K {
	case KBool:
		return "Bool"
	case KBV:
		return fmt.Sprintf("(_ BitVec %d)", s.W)
	case KStr:
		return "String"
	case KF64:
		return "(_ FloatingPoint 11 53)"
	case KInt:
		return "Int"
	}
	return "?"
}

type Op uint8

const (
	OpVar Op = iota
	OpConst
	OpNot
	OpAnd
	OpOr
	OpIte
	OpEq
	// bit-vectors
	OpAdd
	OpSub
	OpMul
	OpUDiv
	OpSDiv
	OpURem
	OpSRem
	OpBAnd
	OpBOr
	OpBXor
	OpShl
	OpLShr
	OpAShr
	OpBNot
	OpNeg
	OpULt
	OpULe
	OpSLt
	OpSLe
	OpZExt    // target width in Sort
	OpSExt    // target width in Sort
	OpExtract // low bits: target width in Sort (truncate)
	// strings
	OpSConcat
	OpSLen   // -> Int
	OpStrLt  // lexicographic
	OpSFromInt // Int -> String (non-negative)
	OpSToInt   // String -> Int (-1 if not digits)
	OpSPrefix  // prefixof a b : a is prefix of b
	OpSContains
	OpSSubstr // s, off(Int), len(Int)
	OpSAt
	// ints
	OpIAdd
	OpISub
	OpIMul
	OpILe
	OpILt
	OpINeg
	OpBV2Int // unsigned value of bv -> Int
	OpInt2BV // Int -> bv of Sort width (mod 2^w)
	// floats
	OpFAdd
	OpFSub
	OpFMul
	OpFDiv
	OpFLt
	OpFLe
	OpFEq
	OpFNeg
	OpSI2F // signed bv -> float64 (RNE)
	OpUI2F
	OpF2SI // float64 -> signed bv of Sort width (RTZ)
	OpF2UI
	OpFIsNaN
	// uninterpreted function application: Name holds the function symbol
	OpUF
)

var opNames = map[Op]string{
	OpNot: "not", OpAnd: "and", OpOr: "or", OpIte: "ite", OpEq: "=",
	OpAdd: "bvadd", OpSub: "bvsub", OpMul: "bvmul", OpUDiv: "bvudiv", OpSDiv: "bvsdiv",
	OpURem: "bvurem", OpSRem: "bvsrem", OpBAnd: "bvand", OpBOr: "bvor", OpBXor: "bvxor",
	OpShl: "bvshl", OpLShr: "bvlshr", OpAShr: "bvashr", OpBNot: "bvnot", OpNeg: "bvneg",
	OpULt: "bvult", OpULe: "bvule", OpSLt: "bvslt", OpSLe: "bvsle",
	OpSConcat: "str.++", OpSLen: "str.len", OpStrLt: "str.<", OpSFromInt: "str.from_int", OpSToInt: "str.to_int",
	OpSPrefix: "str.prefixof", OpSContains: "str.contains", OpSSubstr: "str.substr", OpSAt: "str.at",
	OpIAdd: "+", OpISub: "-", OpIMul: "*", OpILe: "<=", OpILt: "<", OpINeg: "-",
	OpFLt: "fp.lt", OpFLe: "fp.leq", OpFEq: "fp.eq", OpFNeg: "fp.neg", OpFIsNaN: "fp.isNaN",
}

type Term struct {
	Op   Op
	Sort Sort
	Args []*Term
	// constants
	U uint64  // bool (0/1), bv value, float bits
	I int64   // Int constant
	S string  // string constant / variable name / UF name
	ID int
}

var (
	mu    sync.Mutex
	table = map[string]*Term{}
	all   []*Term
)

func NumTerms() int { mu.Lock(); defer mu.Unlock(); return len(all) }

func intern(t *Term) *Term {
	var sb strings.Builder
	sb.WriteByte(byte(t.Op))
	sb.WriteByte(byte(t.Sort.K))
	sb.WriteByte(t.Sort.W)
	switch t.Op {
	case OpConst:
		switch t.Sort.K {
		case KStr:
			sb.WriteString(t.S)
		case KInt:
			sb.WriteString(strconv.FormatInt(t.I, 10))
		default:
			sb.WriteString(strconv.FormatUint(t.U, 16))
		}
	case OpVar:
		sb.WriteString(t.S)
	case OpUF:
		sb.WriteString(t.S)
		sb.WriteByte(0)
	}
	for _, a := range t.Args {
		sb.WriteByte('.')
		sb.WriteString(strconv.Itoa(a.ID))
	}
	k := sb.String()
	mu.Lock()
	defer mu.Unlock()
	if e, ok := table[k]; ok {
		return e
	}
	t.ID = len(all)
	all = append(all, t)
	table[k] = t
	return t
}

var (
	True  = intern(&Term{Op: OpConst, Sort: Bool, U: 1})
	False = intern(&Term{Op: OpConst, Sort: Bool, U: 0})
)

func BoolC(b bool) *Term {
	if b {
		return True
	}
	return False
}

func mask(w uint8) uint64 {
	if w >= 64 {
		return ^uint64(0)
	}
	return (uint64(1) << w) - 1
}

func BVC(w int, v uint64) *Term {
	return intern(&Term{Op: OpConst, Sort: BV(w), U: v & mask(uint8(w))})
}
func StrC(s string) *Term   { return intern(&Term{Op: OpConst, Sort: Str, S: s}) }
func IntC(i int64) *Term    { return intern(&Term{Op: OpConst, Sort: Int, I: i}) }
func F64C(f float64) *Term  { return intern(&Term{Op: OpConst, Sort: F64, U: math.Float64bits(f)}) }
func Var(name string, s Sort) *Term { return intern(&Term{Op: OpVar, Sort: s, S: name}) }

func UF(name string, s Sort, args ...*Term) *Term {
	return intern(&Term{Op: OpUF, Sort: s, S: name, Args: args})
}

func (t *Term) IsConst() bool { return t.Op == OpConst }
func (t *Term) IsTrue() bool  { return t == True }
func (t *Term) IsFalse() bool { return t == False }

// SVal returns the signed value of a constant bit-vector.
func (t *Term) SVal() int64 {
	w := t.Sort.W
	if w >= 64 {
		return int64(t.U)
	}
	if t.U&(uint64(1)<<(w-1)) != 0 {
		return int64(t.U | ^mask(w))
	}
	return int64(t.U)
}

func mk(op Op, s Sort, args ...*Term) *Term {
	return intern(&Term{Op: op, Sort: s, Args: args})
}

// ---- booleans

func Not(a *Term) *Term {
	if a == True {
		return False
	}
	if a == False {
		return True
	}
	if a.Op == OpNot {
		return a.Args[0]
	}
	return mk(OpNot, Bool, a)
}

func And(xs ...*Term) *Term {
	var out []*Term
	seen := map[*Term]bool{}
	var add func(x *Term) bool
	add = func(x *Term) bool {
		if x == True {
			return true
		}
		if x == False {
			return false
		}
		if x.Op == OpAnd {
			for _, y := range x.Args {
				if !add(y) {
					return false
				}
			}
			return true
		}
		if seen[x] {
			return true
		}
		if seen[Not(x)] {
			return false
		}
		seen[x] = true
		out = append(out, x)
		return true
	}
	for _, x := range xs {
		if !add(x) {
			return False
		}
	}
	switch len(out) {
	case 0:
		return True
	case 1:
		return out[0]
	}
	sort.Slice(out, func(i, j int) bool { return out[i].ID < out[j].ID })
	return mk(OpAnd, Bool, out...)
}

func Or(xs ...*Term) *Term {
	var out []*Term
	seen := map[*Term]bool{}
	var add func(x *Term) bool
	add = func(x *Term) bool {
		if x == False {
			return true
		}
		if x == True {
			return false
		}
		if x.Op == OpOr {
			for _, y := range x.Args {
				if !add(y) {
					return false
				}
			}
			return true
		}
		if seen[x] {
			return true
		}
		if seen[Not(x)] {
			return false
		}
		seen[x] = true
		out = append(out, x)
		return true
	}
	for _, x := range xs {
		if !add(x) {
			return True
		}
	}
	switch len(out) {
	case 0:
		return False
	case 1:
		return out[0]
	}
	sort.Slice(out, func(i, j int) bool { return out[i].ID < out[j].ID })
	return mk(OpOr, Bool, out...)
}

func Implies(a, b *Term) *Term { return Or(Not(a), b) }

func Ite(c, a, b *Term) *Term {
	if c == True {
		return a
	}
	if c == False {
		return b
	}
	if a == b {
		return a
	}
	if a.Sort != b.Sort {
		panic(fmt.Sprintf("ite sort mismatch %v %v", a.Sort, b.Sort))
	}
	if a.Sort == Bool {
		if a == True && b == False {
			return c
		}
		if a == False && b == True {
			return Not(c)
		}
		if a == True {
			return Or(c, b)
		}
		if a == False {
			return And(Not(c), b)
		}
		if b == True {
			return Or(Not(c), a)
		}
		if b == False {
			return And(c, a)
		}
	}
	if c.Op == OpNot {
		return Ite(c.Args[0], b, a)
	}
	// ite(c, ite(c, x, y), b) = ite(c, x, b)
	if a.Op == OpIte && a.Args[0] == c {
		return Ite(c, a.Args[1], b)
	}
	if b.Op == OpIte && b.Args[0] == c {
		return Ite(c, a, b.Args[2])
	}
	return mk(OpIte, a.Sort, c, a, b)
}

func Eq(a, b *Term) *Term {
	if a == b {
		return True
	}
	if a.Sort != b.Sort {
		panic(fmt.Sprintf("eq sort mismatch %v %v (%s, %s)", a.Sort, b.Sort, a, b))
	}
	if a.IsConst() && b.IsConst() {
		return False // hash-consed: distinct constants are different
	}
	if a.Sort == Bool {
		if a == True {
			return b
		}
		if b == True {
			return a
		}
		if a == False {
			return Not(b)
		}
		if b == False {
			return Not(a)
		}
	}
	// str_of_bytes_n is an injective encoding of n bytes (different n: different strings)
	if a.Op == OpUF && b.Op == OpUF && strings.HasPrefix(a.S, "str_of_bytes_") && strings.HasPrefix(b.S, "str_of_bytes_") {
		if a.S != b.S {
			return False
		}
		cs := make([]*Term, len(a.Args))
		for i := range a.Args {
			cs[i] = Eq(a.Args[i], b.Args[i])
		}
		return And(cs...)
	}
	// decimal rendering is injective on non-negative integers; bv2nat is injective
	if a.Op == OpSFromInt && b.Op == OpSFromInt && nonNeg(a.Args[0]) && nonNeg(b.Args[0]) {
		return Eq(a.Args[0], b.Args[0])
	}
	if a.Op == OpBV2Int && b.Op == OpBV2Int && a.Args[0].Sort == b.Args[0].Sort {
		return Eq(a.Args[0], b.Args[0])
	}
	if a.Op == OpIte && (b.Op == OpSFromInt || b.Op == OpBV2Int) && (a.Args[1].Op == b.Op || a.Args[2].Op == b.Op) {
		return Ite(a.Args[0], Eq(a.Args[1], b), Eq(a.Args[2], b))
	}
	if b.Op == OpIte && (a.Op == OpSFromInt || a.Op == OpBV2Int) && (b.Args[1].Op == a.Op || b.Args[2].Op == a.Op) {
		return Ite(b.Args[0], Eq(a, b.Args[1]), Eq(a, b.Args[2]))
	}
	// eq(ite(c, k1, k2), k) with constants folds
	if b.IsConst() && a.Op == OpIte {
		return Ite(a.Args[0], Eq(a.Args[1], b), Eq(a.Args[2], b))
	}
	if a.IsConst() && b.Op == OpIte {
		return Ite(b.Args[0], Eq(a, b.Args[1]), Eq(a, b.Args[2]))
	}
	if a.ID > b.ID {
		a, b = b, a
	}
	return mk(OpEq, Bool, a, b)
}

// ---- bit-vectors

func sameBV(a, b *Term) {
	if a.Sort != b.Sort || a.Sort.K != KBV {
		panic(fmt.Sprintf("bv sort mismatch %v %v (%s, %s)", a.Sort, b.Sort, a, b))
	}
}

func BVBin(op Op, a, b *Term) *Term {
	sameBV(a, b)
	w := a.Sort.W
	if a.IsConst() && b.IsConst() {
		x, y := a.U, b.U
		var r uint64
		switch op {
		case OpAdd:
			r = x + y
		case OpSub:
			r = x - y
		case OpMul:
			r = x * y
		case OpUDiv:
			if y == 0 {
				r = mask(w)
			} else {
				r = x / y
			}
		case OpURem:
			if y == 0 {
				r = x
			} else {
				r = x % y
			}
		case OpSDiv:
			sx, sy := a.SVal(), b.SVal()
			if sy == 0 {
				if sx >= 0 {
					r = mask(w)
				} else {
					r = 1
				}
			} else if sy == -1 {
				r = uint64(-sx)
			} else {
				r = uint64(sx / sy)
			}
		case OpSRem:
			sx, sy := a.SVal(), b.SVal()
			if sy == 0 {
				r = x
			} else if sy == -1 {
				r = 0
			} else {
				r = uint64(sx % sy)
			}
		case OpBAnd:
			r = x & y
		case OpBOr:
			r = x | y
		case OpBXor:
			r = x ^ y
		case OpShl:
			if y >= uint64(w) {
				r = 0
			} else {
				r = x << y
			}
		case OpLShr:
			if y >= uint64(w) {
				r = 0
			} else {
				r = x >> y
			}
		case OpAShr:
			sx := a.SVal()
			if y >= uint64(w) {
				if sx < 0 {
					r = mask(w)
				} else {
					r = 0
				}
			} else {
				r = uint64(sx >> y)
			}
		default:
			panic("bad bv op")
		}
		return BVC(int(w), r)
	}
	// identities
	switch op {
	case OpAdd:
		if a.IsConst() && a.U == 0 {
			return b
		}
		if b.IsConst() && b.U == 0 {
			return a
		}
		// (x + c1) + c2
		if b.IsConst() && a.Op == OpAdd && a.Args[1].IsConst() {
			return BVBin(OpAdd, a.Args[0], BVC(int(w), a.Args[1].U+b.U))
		}
	case OpSub:
		if b.IsConst() && b.U == 0 {
			return a
		}
		if a == b {
			return BVC(int(w), 0)
		}
		if b.IsConst() {
			return BVBin(OpAdd, a, BVC(int(w), -b.U))
		}
	case OpMul:
		if a.IsConst() && a.U == 1 {
			return b
		}
		if b.IsConst() && b.U == 1 {
			return a
		}
		if (a.IsConst() && a.U == 0) || (b.IsConst() && b.U == 0) {
			return BVC(int(w), 0)
		}
	case OpBAnd:
		if a == b {
			return a
		}
	case OpBOr:
		if a == b {
			return a
		}
	}
	// push arithmetic into ite with constant arms: op(ite(c,k1,k2), k)
	if b.IsConst() && a.Op == OpIte && (a.Args[1].IsConst() || a.Args[2].IsConst()) {
		return Ite(a.Args[0], BVBin(op, a.Args[1], b), BVBin(op, a.Args[2], b))
	}
	if a.IsConst() && b.Op == OpIte && (b.Args[1].IsConst() || b.Args[2].IsConst()) {
		return Ite(b.Args[0], BVBin(op, a, b.Args[1]), BVBin(op, a, b.Args[2]))
	}
	if op == OpAdd || op == OpMul || op == OpBAnd || op == OpBOr || op == OpBXor {
		if a.IsConst() { // constants to the right
			a, b = b, a
		}
	}
	return mk(op, a.Sort, a, b)
}

func BVCmp(op Op, a, b *Term) *Term {
	sameBV(a, b)
	// strict comparisons are kept as negated non-strict ones (one canonical literal per fact)
	if op == OpSLt && !(a.IsConst() && b.IsConst()) {
		return Not(BVCmp(OpSLe, b, a))
	}
	if op == OpULt && !(a.IsConst() && b.IsConst()) {
		return Not(BVCmp(OpULe, b, a))
	}
	if a.IsConst() && b.IsConst() {
		switch op {
		case OpULt:
			return BoolC(a.U < b.U)
		case OpULe:
			return BoolC(a.U <= b.U)
		case OpSLt:
			return BoolC(a.SVal() < b.SVal())
		case OpSLe:
			return BoolC(a.SVal() <= b.SVal())
		}
	}
	if a == b {
		return BoolC(op == OpULe || op == OpSLe)
	}
	if b.IsConst() && a.Op == OpIte && (a.Args[1].IsConst() || a.Args[2].IsConst()) {
		return Ite(a.Args[0], BVCmp(op, a.Args[1], b), BVCmp(op, a.Args[2], b))
	}
	if a.IsConst() && b.Op == OpIte && (b.Args[1].IsConst() || b.Args[2].IsConst()) {
		return Ite(b.Args[0], BVCmp(op, a, b.Args[1]), BVCmp(op, a, b.Args[2]))
	}
	return mk(op, Bool, a, b)
}

func BVNot(a *Term) *Term {
	if a.IsConst() {
		return BVC(int(a.Sort.W), ^a.U)
	}
	return mk(OpBNot, a.Sort, a)
}

func BVNeg(a *Term) *Term {
	if a.IsConst() {
		return BVC(int(a.Sort.W), -a.U)
	}
	return mk(OpNeg, a.Sort, a)
}

// Resize converts a bit-vector to width w, sign- or zero-extending.
func Resize(a *Term, w int, signed bool) *Term {
	aw := int(a.Sort.W)
	if aw == w {
		return a
	}
	if a.IsConst() {
		if w < aw {
			return BVC(w, a.U)
		}
		if signed {
			return BVC(w, uint64(a.SVal()))
		}
		return BVC(w, a.U)
	}
	if a.Op == OpIte && (a.Args[1].IsConst() || a.Args[2].IsConst()) {
		return Ite(a.Args[0], Resize(a.Args[1], w, signed), Resize(a.Args[2], w, signed))
	}
	if w < aw {
		return mk(OpExtract, BV(w), a)
	}
	if signed {
		return mk(OpSExt, BV(w), a)
	}
	return mk(OpZExt, BV(w), a)
}

// ---- strings

func SConcat(a, b *Term) *Term {
	if a.IsConst() && b.IsConst() {
		return StrC(a.S + b.S)
	}
	if a.IsConst() && a.S == "" {
		return b
	}
	if b.IsConst() && b.S == "" {
		return a
	}
	// (x ++ "a") ++ "b"
	if b.IsConst() && a.Op == OpSConcat && a.Args[1].IsConst() {
		return SConcat(a.Args[0], StrC(a.Args[1].S+b.S))
	}
	return mk(OpSConcat, Str, a, b)
}

func SLen(a *Term) *Term {
	if a.IsConst() {
		return IntC(int64(len(a.S)))
	}
	if a.Op == OpSConcat {
		return IBin(OpIAdd, SLen(a.Args[0]), SLen(a.Args[1]))
	}
	if a.Op == OpIte {
		return Ite(a.Args[0], SLen(a.Args[1]), SLen(a.Args[2]))
	}
	return mk(OpSLen, Int, a)
}

func SLess(a, b *Term) *Term {
	if a.IsConst() && b.IsConst() {
		return BoolC(a.S < b.S)
	}
	return mk(OpStrLt, Bool, a, b)
}

func nonNeg(a *Term) bool {
	return a.Op == OpBV2Int || a.Op == OpSLen || (a.IsConst() && a.I >= 0)
}

func SFromInt(a *Term) *Term {
	if a.Op == OpIte {
		return Ite(a.Args[0], SFromInt(a.Args[1]), SFromInt(a.Args[2]))
	}
	if a.IsConst() {
		if a.I < 0 {
			return StrC("")
		}
		return StrC(strconv.FormatInt(a.I, 10))
	}
	return mk(OpSFromInt, Str, a)
}

func SToInt(a *Term) *Term {
	if a.Op == OpSFromInt {
		x := a.Args[0]
		return Ite(ICmp(OpILe, IntC(0), x), x, IntC(-1))
	}
	if a.Op == OpIte {
		return Ite(a.Args[0], SToInt(a.Args[1]), SToInt(a.Args[2]))
	}
	if a.IsConst() {
		if a.S == "" {
			return IntC(-1)
		}
		for _, c := range a.S {
			if c < '0' || c > '9' {
				return IntC(-1)
			}
		}
		v, err := strconv.ParseInt(a.S, 10, 64)
		if err != nil {
			return mk(OpSToInt, Int, a)
		}
		return IntC(v)
	}
	return mk(OpSToInt, Int, a)
}

func SPrefix(p, s *Term) *Term {
	if p.IsConst() && s.IsConst() {
		return BoolC(strings.HasPrefix(s.S, p.S))
	}
	return mk(OpSPrefix, Bool, p, s)
}

func SContains(s, sub *Term) *Term {
	if sub.IsConst() && s.IsConst() {
		return BoolC(strings.Contains(s.S, sub.S))
	}
	return mk(OpSContains, Bool, s, sub)
}

func SSubstr(s, off, n *Term) *Term {
	if s.IsConst() && off.IsConst() && n.IsConst() {
		o, l := off.I, n.I
		if o < 0 || o >= int64(len(s.S)) || l <= 0 {
			return StrC("")
		}
		if o+l > int64(len(s.S)) {
			l = int64(len(s.S)) - o
		}
		return StrC(s.S[o : o+l])
	}
	return mk(OpSSubstr, Str, s, off, n)
}

// ---- ints

func IBin(op Op, a, b *Term) *Term {
	if a.IsConst() && b.IsConst() {
		switch op {
		case OpIAdd:
			return IntC(a.I + b.I)
		case OpISub:
			return IntC(a.I - b.I)
		case OpIMul:
			return IntC(a.I * b.I)
		}
	}
	if op == OpIAdd {
		if a.IsConst() && a.I == 0 {
			return b
		}
		if b.IsConst() && b.I == 0 {
			return a
		}
	}
	return mk(op, Int, a, b)
}

func ICmp(op Op, a, b *Term) *Term {
	if a.IsConst() && b.IsConst() {
		if op == OpILe {
			return BoolC(a.I <= b.I)
		}
		return BoolC(a.I < b.I)
	}
	if op == OpILt {
		return Not(ICmp(OpILe, b, a))
	}
	// 0 <= bv2nat(x) always
	if op == OpILe && a.IsConst() && a.I <= 0 && (b.Op == OpBV2Int || b.Op == OpSLen) {
		return True
	}
	return mk(op, Bool, a, b)
}

func BV2Int(a *Term) *Term {
	if a.IsConst() {
		return IntC(int64(a.U))
	}
	if a.Op == OpIte {
		return Ite(a.Args[0], BV2Int(a.Args[1]), BV2Int(a.Args[2]))
	}
	if a.Op == OpInt2BV {
		// only valid when in range; callers use it on lengths
	}
	return mk(OpBV2Int, Int, a)
}

func Int2BV(a *Term, w int) *Term {
	if a.IsConst() {
		return BVC(w, uint64(a.I))
	}
	if a.Op == OpBV2Int && int(a.Args[0].Sort.W) == w {
		return a.Args[0]
	}
	if a.Op == OpIte {
		return Ite(a.Args[0], Int2BV(a.Args[1], w), Int2BV(a.Args[2], w))
	}
	if a.Op == OpIAdd {
		return BVBin(OpAdd, Int2BV(a.Args[0], w), Int2BV(a.Args[1], w))
	}
	return mk(OpInt2BV, BV(w), a)
}

// ---- floats

func FBin(op Op, a, b *Term) *Term {
	if a.IsConst() && b.IsConst() {
		x, y := math.Float64frombits(a.U), math.Float64frombits(b.U)
		switch op {
		case OpFAdd:
			return F64C(x + y)
		case OpFSub:
			return F64C(x - y)
		case OpFMul:
			return F64C(x * y)
		case OpFDiv:
			return F64C(x / y)
		}
	}
	return mk(op, F64, a, b)
}

func FCmp(op Op, a, b *Term) *Term {
	if a.IsConst() && b.IsConst() {
		x, y := math.Float64frombits(a.U), math.Float64frombits(b.U)
		switch op {
		case OpFLt:
			return BoolC(x < y)
		case OpFLe:
			return BoolC(x <= y)
		case OpFEq:
			return BoolC(x == y)
		}
	}
	return mk(op, Bool, a, b)
}

func FNeg(a *Term) *Term {
	if a.IsConst() {
		return F64C(-math.Float64frombits(a.U))
	}
	return mk(OpFNeg, F64, a)
}

func SI2F(a *Term) *Term {
	if a.IsConst() {
		return F64C(float64(a.SVal()))
	}
	return mk(OpSI2F, F64, a)
}

func UI2F(a *Term) *Term {
	if a.IsConst() {
		return F64C(float64(a.U))
	}
	return mk(OpUI2F, F64, a)
}

func F2SI(a *Term, w int) *Term {
	if a.IsConst() {
		f := math.Float64frombits(a.U)
		if !math.IsNaN(f) && f > -9.2e18 && f < 9.2e18 {
			return BVC(w, uint64(int64(f)))
		}
	}
	return mk(OpF2SI, BV(w), a)
}

func F2UI(a *Term, w int) *Term {
	if a.IsConst() {
		f := math.Float64frombits(a.U)
		if !math.IsNaN(f) && f >= 0 && f < 1.8e19 {
			return BVC(w, uint64(f))
		}
	}
	return mk(OpF2UI, BV(w), a)
}

// ---- printing

func smtString(s string) string {
	var sb strings.Builder
	sb.WriteByte('"')
	for _, r := range s {
		switch {
		case r == '"':
			sb.WriteString(`""`)
		case r == '\\':
			sb.WriteString(`\u{5c}`)
		case r < 0x20 || r > 0x7e:
			fmt.Fprintf(&sb, `\u{%x}`, r)
		default:
			sb.WriteRune(r)
		}
	}
	sb.WriteByte('"')
	return sb.String()
}

// Ref is the name under which a term is known to the solver.
func (t *Term) Ref() string {
	switch t.Op {
	case OpConst:
		return t.constSMT()
	case OpVar:
		return "|" + t.S + "|"
	}
	return "t" + strconv.Itoa(t.ID)
}

func (t *Term) constSMT() string {
	switch t.Sort.K {
	case KBool:
		if t.U == 1 {
			return "true"
		}
		return "false"
	case KBV:
		return fmt.Sprintf("(_ bv%d %d)", t.U, t.Sort.W)
	case KStr:
		return smtString(t.S)
	case KInt:
		if t.I < 0 {
			return fmt.Sprintf("(- %d)", -t.I)
		}
		return strconv.FormatInt(t.I, 10)
	case KF64:
		return fmt.Sprintf("((_ to_fp 11 53) (_ bv%d 64))", t.U)
	}
	return "?"
}

// Body is the SMT-LIB expression defining a non-leaf term over the Refs of its arguments.
func (t *Term) Body() string {
	args := make([]string, len(t.Args))
	for i, a := range t.Args {
		args[i] = a.Ref()
	}
	j := strings.Join(args, " ")
	switch t.Op {
	case OpZExt:
		return fmt.Sprintf("((_ zero_extend %d) %s)", int(t.Sort.W)-int(t.Args[0].Sort.W), j)
	case OpSExt:
		return fmt.Sprintf("((_ sign_extend %d) %s)", int(t.Sort.W)-int(t.Args[0].Sort.W), j)
	case OpExtract:
		return fmt.Sprintf("((_ extract %d 0) %s)", int(t.Sort.W)-1, j)
	case OpBV2Int:
		return fmt.Sprintf("(bv2nat %s)", j)
	case OpInt2BV:
		return fmt.Sprintf("((_ int2bv %d) %s)", t.Sort.W, j)
	case OpFAdd:
		return "(fp.add RNE " + j + ")"
	case OpFSub:
		return "(fp.sub RNE " + j + ")"
	case OpFMul:
		return "(fp.mul RNE " + j + ")"
	case OpFDiv:
		return "(fp.div RNE " + j + ")"
	case OpSI2F:
		return "((_ to_fp 11 53) RNE " + j + ")"
	case OpUI2F:
		return "((_ to_fp_unsigned 11 53) RNE " + j + ")"
	case OpF2SI:
		return fmt.Sprintf("((_ fp.to_sbv %d) RTZ %s)", t.Sort.W, j)
	case OpF2UI:
		return fmt.Sprintf("((_ fp.to_ubv %d) RTZ %s)", t.Sort.W, j)
	case OpUF:
		if len(t.Args) == 0 {
			return t.S
		}
		return "(" + t.S + " " + j + ")"
	}
	n, ok := opNames[t.Op]
	if !ok {
		panic(fmt.Sprintf("no smt name for op %d", t.Op))
	}
	return "(" + n + " " + j + ")"
}

func (t *Term) String() string {
	return t.str(4)
}

func (t *Term) str(depth int) string {
	switch t.Op {
	case OpConst:
		switch t.Sort.K {
		case KBool:
			return strconv.FormatBool(t.U == 1)
		case KBV:
			return strconv.FormatInt(t.SVal(), 10)
		case KStr:
			return strconv.Quote(t.S)
		case KInt:
			return strconv.FormatInt(t.I, 10)
		case KF64:
			return strconv.FormatFloat(math.Float64frombits(t.U), 'g', -1, 64)
		}
	case OpVar:
		return t.S
	}
	if depth == 0 {
		return "t" + strconv.Itoa(t.ID)
	}
	var parts []string
	for _, a := range t.Args {
		parts = append(parts, a.str(depth-1))
	}
	n := opNames[t.Op]
	if t.Op == OpUF {
		n = t.S
	}
	if n == "" {
		n = fmt.Sprintf("op%d", t.Op)
	}
	return "(" + n + " " + strings.Join(parts, " ") + ")"
}

// Vars collects the free variables of t.
func Vars(t *Term, seen map[*Term]bool, out *[]*Term) {
	if seen[t] {
		return
	}
	seen[t] = true
	if t.Op == OpVar {
		*out = append(*out, t)
		return
	}
	for _, a := range t.Args {
		Vars(a, seen, out)
	}
}

// Subst evaluates t with a partial assignment of variables to constants, re-simplifying.
func Subst(t *Term, env map[*Term]*Term, memo map[*Term]*Term) *Term {
	if r, ok := memo[t]; ok {
		return r
	}
	var r *Term
	switch t.Op {
	case OpConst:
		r = t
	case OpVar:
		if v, ok := env[t]; ok {
			r = v
		} else {
			r = t
		}
	default:
		args := make([]*Term, len(t.Args))
		changed := false
		for i, a := range t.Args {
			args[i] = Subst(a, env, memo)
			if args[i] != a {
				changed = true
			}
		}
		if !changed {
			r = t
		} else {
			r = Rebuild(t, args)
		}
	}
	memo[t] = r
	return r
}

// Rebuild re-applies t's operator to new arguments through the smart constructors.
func Rebuild(t *Term, a []*Term) *Term {
	switch t.Op {
	case OpNot:
		return Not(a[0])
	case OpAnd:
		return And(a...)
	case OpOr:
		return Or(a...)
	case OpIte:
		return Ite(a[0], a[1], a[2])
	case OpEq:
		return Eq(a[0], a[1])
	case OpAdd, OpSub, OpMul, OpUDiv, OpSDiv, OpURem, OpSRem, OpBAnd, OpBOr, OpBXor, OpShl, OpLShr, OpAShr:
		return BVBin(t.Op, a[0], a[1])
	case OpULt, OpULe, OpSLt, OpSLe:
		return BVCmp(t.Op, a[0], a[1])
	case OpBNot:
		return BVNot(a[0])
	case OpNeg:
		return BVNeg(a[0])
	case OpZExt:
		return Resize(a[0], int(t.Sort.W), false)
	case OpSExt:
		return Resize(a[0], int(t.Sort.W), true)
	case OpExtract:
		return Resize(a[0], int(t.Sort.W), false)
	case OpSConcat:
		return SConcat(a[0], a[1])
	case OpSLen:
		return SLen(a[0])
	case OpStrLt:
		return SLess(a[0], a[1])
	case OpSFromInt:
		return SFromInt(a[0])
	case OpSToInt:
		return SToInt(a[0])
	case OpSPrefix:
		return SPrefix(a[0], a[1])
	case OpSContains:
		return SContains(a[0], a[1])
	case OpSSubstr:
		return SSubstr(a[0], a[1], a[2])
	case OpIAdd, OpISub, OpIMul:
		return IBin(t.Op, a[0], a[1])
	case OpILe, OpILt:
		return ICmp(t.Op, a[0], a[1])
	case OpBV2Int:
		return BV2Int(a[0])
	case OpInt2BV:
		return Int2BV(a[0], int(t.Sort.W))
	case OpFAdd, OpFSub, OpFMul, OpFDiv:
		return FBin(t.Op, a[0], a[1])
	case OpFLt, OpFLe, OpFEq:
		return FCmp(t.Op, a[0], a[1])
	case OpFNeg:
		return FNeg(a[0])
	case OpSI2F:
		return SI2F(a[0])
	case OpUI2F:
		return UI2F(a[0])
	case OpF2SI:
		return F2SI(a[0], int(t.Sort.W))
	case OpF2UI:
		return F2UI(a[0], int(t.Sort.W))
	}
	return intern(&Term{Op: t.Op, Sort: t.Sort, Args: a, S: t.S})
}
