//verif:target pubsub/gochannel/zz_verif_c01.go

package gochannel

import (
	"context"
	"errors"

	"github.com/ThreeDotsLabs/watermill"
	"github.com/ThreeDotsLabs/watermill/message"
	"github.com/ThreeDotsLabs/watermill/zzverif/vrt"
)

var errC01 = errors.New("injected fault")

// faultyPublisher forwards to the GoChannel; its first call may fail or panic.
type faultyPublisher struct {
	inner   message.Publisher
	calls   int
	fault   int // 0 none, 1 error on the first call, 2 panic on the first call
	acked   *message.Message // consumed message whose settlement is sampled
	sampled []int
}

func (p *faultyPublisher) Publish(topic string, msgs ...*message.Message) error {
	p.calls++
	if p.calls == 1 {
		switch p.fault {
		case 1:
			return errC01
		case 2:
			panic("injected publisher panic")
		}
	}
	return p.inner.Publish(topic, msgs...)
}
func (p *faultyPublisher) Close() error { return nil }

// c01Pipeline: one Router stage t0 -> t1 over one real GoChannel; one message; at most one fault among
// {handler error, handler panic, publisher error, publisher panic} on the first call. Whatever the
// schedule, the message reaches the final topic and what arrives derives from what was published.
func c01Pipeline(cfg Config) { c01PipelineF(cfg, 2, 2) }

func c01PipelineF(cfg Config, maxH, maxP int) {
	g := NewGoChannel(cfg, watermill.NopLogger{})
	r, err := message.NewRouter(message.RouterConfig{}, watermill.NopLogger{})
	vrt.Assert(err == nil, "router")
	hFault := vrt.Int("handler.fault", 0, maxH) // 0 none, 1 error on first call, 2 panic on first call
	pFault := vrt.Int("publisher.fault", 0, maxP)
	vrt.Assume(hFault == 0 || pFault == 0) // at most one fault
	hcalls := 0
	pub := &faultyPublisher{inner: g, fault: pFault}
	r.AddHandler("stage", "t0", g, "t1", pub, func(m *message.Message) ([]*message.Message, error) {
		hcalls++
		if hcalls == 1 {
			switch hFault {
			case 1:
				return nil, errC01
			case 2:
				panic("injected handler panic")
			}
		}
		out := message.NewMessage(m.UUID, m.Payload)
		return []*message.Message{out}, nil
	})
	ctx, cancel := context.WithCancel(context.Background())
	defer cancel()
	sink, err := g.Subscribe(ctx, "t1")
	vrt.Assert(err == nil, "sink subscribed")
	go func() {
		vrt.MayBlock()
		_ = r.Run(ctx)
	}()
	<-r.Running()
	vrt.Assert(g.Publish("t0", newMsg(0)) == nil, "published at the source")
	got := <-sink // main must finish: the message is never lost
	vrt.Assert(got.UUID == "u0" && string(got.Payload) == "p0", "what arrives at the final topic derives from the published message")
	got.Ack()
	vrt.Observe("handler.calls", hcalls)
	vrt.Assert(hcalls >= 1 && hcalls <= 2, "the message is redelivered to the stage exactly as often as it was nacked")
}

func HarnessC01Stage1() { c01Pipeline(Config{}) }

func HarnessC01NoFault()      { c01PipelineF(Config{}, 0, 0) }
func HarnessC01HandlerFault() { c01PipelineF(Config{}, 2, 0) }
func HarnessC01PubFault()     { c01PipelineF(Config{}, 0, 2) }
