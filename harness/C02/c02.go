//verif:target message/zz_verif_c02.go

package message

import (
	"context"
	"errors"
	"fmt"
	"sync"

	"github.com/ThreeDotsLabs/watermill"
	"github.com/ThreeDotsLabs/watermill/zzverif/vrt"
)

// the handler's publish topic; "" is legal together with a real publisher (one that routes by metadata)
var c02PublishTopic = "out"

func c02Handler(pubKind int, pub *scriptedPublisher) *handler {
	h := &handler{
		name:                  "h",
		logger:                watermill.NopLogger{},
		publishTopic:          c02PublishTopic,
		subscribeTopic:        "in",
		runningHandlersWg:     &sync.WaitGroup{},
		runningHandlersWgLock: &sync.Mutex{},
	}
	switch pubKind {
	case 0:
		h.publisher = pub
	case 1:
		h.publisher = disabledPublisher{}
	case 2:
		h.publisher = nil
	}
	return h
}

func c02PanicValue(k int) any {
	switch k {
	case 0:
		return "boom"
	case 1:
		return errors.New("boom error")
	}
	return nil // panic(nil)
}

// c02Script is one arbitrary behaviour of the handler chain and of the publisher.
type c02Script struct {
	pre      int // settlement made inside the handler: 0 none, 1 Ack, 2 Nack
	outcome  int // 0 return nil error, 1 return an error, 2 panic
	nOut     int // messages returned
	panicVal int
	nMw      int  // pass-through middlewares around the handler function
	mwAdds   bool // the outermost middleware appends one message to the output
	pubOut   int  // publisher: 0 accept, 1 error, 2 panic, 3 context.Canceled, 4 an error wrapping context.Canceled
	errKind  int  // the error the handler returns: 0 a plain one, 1 context.Canceled, 2 wrapping context.Canceled
	shareOut bool // the function returns the consumed message object itself as output
	emptyOut bool // the function builds its outputs in an empty, non-nil slice (with nOut == 0 it returns that, not nil)
}

func c02ReadScript(prefix string, maxOut int) c02Script {
	sc := c02Script{
		pre:      vrt.Int(prefix+"pre", 0, 2),
		outcome:  vrt.Int(prefix+"outcome", 0, 2),
		nOut:     vrt.Int(prefix+"nout", 0, maxOut),
		panicVal: vrt.Int(prefix+"panicval", 0, 2),
		nMw:      vrt.Int(prefix+"nmw", 0, vrt.Bound("maxmw", 2)),
		mwAdds:   vrt.Bool(prefix + "mwadds"),
		pubOut:   vrt.Int(prefix+"pubout", 0, 4),
		errKind:  vrt.Int(prefix+"errkind", 0, 2),
	}
	if prefix == "" { // the single-message harness only (the choice is independent of what else is in flight)
		sc.emptyOut = vrt.Bool("outputs.in.an.empty.non-nil.slice")
	}
	return sc
}

type c02Run struct {
	msg      *Message
	pub      *scriptedPublisher
	returned []*Message // what the chain returned to the router
	calls    int
}

func c02Chain(s c02Script, run *c02Run) HandlerFunc {
	fn := func(m *Message) ([]*Message, error) {
		run.calls++
		switch s.pre {
		case 1:
			m.Ack()
		case 2:
			m.Nack()
		}
		if s.outcome == 2 {
			panic(c02PanicValue(s.panicVal))
		}
		var out []*Message
		if s.emptyOut {
			out = make([]*Message, 0, 2) // "no outputs" is a matter of length, not of nil-ness
		}
		for i := 0; i < s.nOut; i++ {
			out = append(out, NewMessage("o", nil))
		}
		if s.outcome == 1 {
			switch s.errKind {
			case 1:
				return out, context.Canceled
			case 2:
				return out, fmt.Errorf("handler gave up: %w", context.Canceled)
			}
			return out, errScripted
		}
		return out, nil
	}
	chain := HandlerFunc(fn)
	for i := 0; i < s.nMw; i++ {
		inner := chain
		outermost := i == s.nMw-1
		chain = func(m *Message) ([]*Message, error) {
			out, err := inner(m)
			if outermost && s.mwAdds && err == nil {
				out = append(out, NewMessage("mw", nil))
			}
			return out, err
		}
	}
	outer := chain
	return func(m *Message) ([]*Message, error) {
		out, err := outer(m)
		run.returned = out
		return out, err
	}
}

func c02Check(prefix string, s c02Script, pubKind int, run *c02Run) {
	msg, pub := run.msg, run.pub
	settled := settlementOf(msg)
	nReturned := len(run.returned)
	failedBefore := s.outcome != 0 // error or panic in the chain
	wantsPublish := !failedBefore && nReturned > 0
	published := wantsPublish && pubKind == 0 && s.pubOut == 0
	publishFailed := wantsPublish && !published

	wantAck := !failedBefore && !publishFailed
	want := 2
	if wantAck {
		want = 1
	}
	if s.pre != 0 {
		want = s.pre // a settlement made by the handler is never overridden
	}
	vrt.Observe(prefix+"settled", settled)
	vrt.Assert(settled == 1 || settled == 2, "the message is settled exactly once (Ack xor Nack)")
	vrt.Assert(settled == want, "Ack iff the chain succeeded and every output was accepted; Nack otherwise; own settlement kept")

	ncalls := len(pub.calls)
	vrt.Observe(prefix+"pubcalls", ncalls)
	if pubKind != 0 {
		vrt.Assert(ncalls == 0, "a handler without publisher publishes nothing")
	} else if wantsPublish {
		vrt.Assert(ncalls == 1, "produced messages are published with exactly one call")
		c := pub.calls[0]
		vrt.Assert(c.topic == c02PublishTopic, "outputs go to the handler's publish topic")
		same := len(c.msgs) == nReturned
		if same {
			for i := range c.msgs {
				if c.msgs[i] != run.returned[i] {
					same = false
				}
			}
		}
		vrt.Assert(same, "outputs are handed to the publisher unmodified and in order")
		vrt.Assert(c.consumedState == s.pre, "the consumed message is not settled by the router before Publish returned")
	} else {
		vrt.Assert(ncalls == 0, "nothing is published after an error or panic, or for an empty output")
	}
	vrt.Assert(run.calls == 1, "the handler chain is invoked exactly once per message")
}

// HarnessC02Settle: one message through the real handleMessage for every handler / publisher behaviour.
func HarnessC02Settle() {
	c02PublishTopic = vrt.PickStr("publish.topic", "out", "")
	pubKind := vrt.Int("pubkind", 0, 2)
	s := c02ReadScript("", vrt.Bound("maxout", 2))
	msg := NewMessage("m", nil)
	pub := &scriptedPublisher{consumed: msg, outcome: func(int) int { return s.pubOut }}
	h := c02Handler(pubKind, pub)
	run := &c02Run{msg: msg, pub: pub}
	h.runningHandlersWg.Add(1)
	h.handleMessage(msg, c02Chain(s, run))
	c02Check("", s, pubKind, run)
	// the in-flight counter is back to zero: Wait does not block
	h.runningHandlersWg.Wait()
}

// HarnessC02InFlight: two messages in flight concurrently on one handler settle independently.
func HarnessC02InFlight() {
	pubKind := vrt.Int("pubkind", 0, 1)
	h := c02Handler(pubKind, nil)
	var runs [2]*c02Run
	var scripts [2]c02Script
	done := make(chan struct{}, 2)
	for i := 0; i < 2; i++ {
		i := i
		prefix := "m0."
		if i == 1 {
			prefix = "m1."
		}
		s := c02ReadScript(prefix, 1)
		vrt.Assume(s.nMw == 0 && s.panicVal == 0)
		scripts[i] = s
		msg := NewMessage(prefix, nil)
		pub := &scriptedPublisher{consumed: msg, outcome: func(int) int { return s.pubOut }}
		runs[i] = &c02Run{msg: msg, pub: pub}
	}
	// one publisher object per message would hide cross-talk: use a shared handler and a routing publisher
	shared := &routingPublisher{byFirst: map[*Message]*scriptedPublisher{}}
	if pubKind == 0 {
		h.publisher = shared
	}
	for i := 0; i < 2; i++ {
		i := i
		h.runningHandlersWg.Add(1)
		chain := c02Chain(scripts[i], runs[i])
		wrapped := func(m *Message) ([]*Message, error) {
			out, err := chain(m)
			if len(out) > 0 {
				shared.mu.Lock()
				shared.byFirst[out[0]] = runs[i].pub
				shared.mu.Unlock()
			}
			return out, err
		}
		go func() {
			h.handleMessage(runs[i].msg, wrapped)
			done <- struct{}{}
		}()
	}
	<-done
	<-done
	h.runningHandlersWg.Wait()
	c02Check("m0.", scripts[0], pubKind, runs[0])
	c02Check("m1.", scripts[1], pubKind, runs[1])
}

// routingPublisher forwards each batch to the scripted publisher of the message that produced it.
type routingPublisher struct {
	mu      sync.Mutex
	byFirst map[*Message]*scriptedPublisher
}

func (r *routingPublisher) Publish(topic string, messages ...*Message) error {
	r.mu.Lock()
	p := r.byFirst[messages[0]]
	r.mu.Unlock()
	return p.Publish(topic, messages...)
}

func (r *routingPublisher) Close() error { return nil }

// HarnessC02StopInFlight: the handler is stopped (Handler.Stop: its context ends, the router stays open) while
// the subscriber still has messages in flight. Whatever the Router took from the subscription before the
// subscription ended is passed to the handler chain and settled exactly once; nothing is taken and thrown away.
func HarnessC02StopInFlight() {
	r, _ := NewRouter(RouterConfig{}, watermill.NopLogger{})
	sub := &countingSubscriber{}
	var mu sync.Mutex
	handled := map[*Message]int{}
	hh := r.AddNoPublisherHandler("h", "in", sub, func(m *Message) error {
		mu.Lock()
		handled[m]++
		mu.Unlock()
		return nil
	})
	r.isRunning = true
	ctx, cancel := context.WithCancel(context.Background())
	defer cancel()
	vrt.Assert(r.RunHandlers(ctx) == nil, "handlers started")
	<-hh.Started()
	msgs := []*Message{NewMessage("a", nil), NewMessage("b", nil)}
	go func() {
		vrt.MayBlock() // the subscription may end before everything was emitted
		for _, m := range msgs {
			sub.chans[0] <- m
		}
	}()
	hh.Stop()
	<-hh.Stopped()
	vrt.AtQuiescence(func() {
		sub.mu.Lock()
		taken := append([]*Message(nil), sub.delivered...)
		sub.mu.Unlock()
		for _, m := range taken {
			vrt.Assert(handled[m] == 1, "a message the Router took from the subscriber is passed to the handler chain exactly once")
			vrt.Assert(settlementOf(m) == 1, "and settled (Ack: the chain succeeded)")
		}
		for _, m := range msgs {
			vrt.Assert(handled[m] <= 1 && settlementOf(m) != 3, "never twice")
		}
	})
}
