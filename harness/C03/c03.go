//verif:target message/zz_verif_c03.go

package message

import (
	"strconv"

	"github.com/ThreeDotsLabs/watermill/zzverif/vrt"
)

// state of a message as the API shows it: 0 unsettled, 1 acked, 2 nacked, 3 both (illegal)
func settlement(m *Message) int {
	a, n := vrt.Closed(m.Acked()), vrt.Closed(m.Nacked())
	switch {
	case a && n:
		return 3
	case a:
		return 1
	case n:
		return 2
	}
	return 0
}

func settlementOf3(m *Message) int { return settlement(m) }

// c03Message builds one of the three kinds of message the property names, unsettled.
func c03Message(kind int) *Message {
	switch kind {
	case 0:
		return NewMessage("u", nil)
	case 1:
		return NewMessage("u", Payload("p")).Copy()
	case 3, 4, 5:
		// a copy of a message that was settled before (3 acked, 4 nacked) or of a copy (5): a copy is a fresh,
		// unsettled message whatever its source went through
		src := NewMessage("u", Payload("p"))
		switch kind {
		case 3:
			src.Ack()
		case 4:
			src.Nack()
		case 5:
			src = src.Copy()
			src.Nack()
		}
		return src.Copy()
	}
	return &Message{} // built without the constructor
}

// HarnessC03Step is the inductive step: from an arbitrary reachable state (unsettled / acked /
// nacked, reached through the real API) one arbitrary operation behaves per specification and
// preserves the representation invariant. Covers sequential histories of any length.
func HarnessC03Step() {
	kind := vrt.Int("kind", 0, 5)
	m := c03Message(kind)
	pre := vrt.Int("pre", 0, 2)
	switch pre {
	case 1:
		m.Ack()
	case 2:
		m.Nack()
	}
	// representation invariant of the pre-state
	vrt.Assert(settlement(m) == pre, "pre-state is what the first call decided")

	op := vrt.Int("op", 0, 3)
	switch op {
	case 0:
		got := m.Ack()
		vrt.Assert(got == (pre != 2), "Ack returns true exactly when the message is (now) acked")
	case 1:
		got := m.Nack()
		vrt.Assert(got == (pre != 1), "Nack returns true exactly when the message is (now) nacked")
	case 2:
		_ = vrt.Closed(m.Acked())
	case 3:
		_ = vrt.Closed(m.Nacked())
	}
	want := pre
	if pre == 0 && op == 0 {
		want = 1
	}
	if pre == 0 && op == 1 {
		want = 2
	}
	post := settlement(m)
	vrt.Observe("post", post)
	vrt.Assert(post == want, "the first Ack or Nack decides the message forever; exactly the matching channel is closed")
	// no call leaves the message unusable: one more Ack and Nack still return (a blocked call is a deadlock
	// of this must-finish thread) and still agree with the decided state
	if post != 0 {
		vrt.Assert(m.Ack() == (post == 1), "a further Ack returns and agrees with the decision")
		vrt.Assert(m.Nack() == (post == 2), "a further Nack returns and agrees with the decision")
		vrt.Assert(settlementOf3(m) == post, "repeated calls change nothing")
	}
}

// HarnessC03Seq runs explicit sequences of 4 arbitrary operations on each kind of message.
func HarnessC03Seq() {
	m := c03Message(vrt.Int("kind", 0, 2))
	state := 0
	for i := 0; i < 4; i++ {
		op := vrt.Int("op"+strconv.Itoa(i), 0, 1)
		if op == 0 {
			got := m.Ack()
			if state == 0 {
				state = 1
			}
			vrt.Assert(got == (state == 1), "Ack result in sequence")
		} else {
			got := m.Nack()
			if state == 0 {
				state = 2
			}
			vrt.Assert(got == (state == 2), "Nack result in sequence")
		}
		vrt.Assert(settlement(m) == state, "state after each call of the sequence")
	}
	vrt.Observe("final", state)
}

type c03Result struct {
	isAck bool
	got   bool
	sawA  bool
	sawN  bool
}

// c03Race: n goroutines each issue one arbitrary call (Ack or Nack) on one message and then read
// both channels; all callers must agree on one winner.
func c03Race(n int) {
	m := c03Message(vrt.Int("kind", 0, 2))
	res := make([]c03Result, n)
	done := make(chan struct{}, n)
	for i := 0; i < n; i++ {
		i := i
		isAck := vrt.Bool("g" + strconv.Itoa(i) + ".ack")
		go func() {
			r := &res[i]
			r.isAck = isAck
			if isAck {
				r.got = m.Ack()
			} else {
				r.got = m.Nack()
			}
			r.sawA = vrt.Closed(m.Acked())
			r.sawN = vrt.Closed(m.Nacked())
			done <- struct{}{}
		}()
	}
	for i := 0; i < n; i++ {
		<-done
	}
	final := settlement(m)
	vrt.Observe("final", final)
	vrt.Assert(final == 1 || final == 2, "exactly one of Acked()/Nacked() is closed after racing calls")
	for i := 0; i < n; i++ {
		r := res[i]
		vrt.Assert(r.got == (r.isAck == (final == 1)), "every caller's result agrees with the single winner")
		vrt.Assert(!(r.sawA && r.sawN), "no caller ever sees both channels closed")
		vrt.Assert(r.sawA == (final == 1) && r.sawN == (final == 2), "after its own call returned a caller sees the final settlement")
	}
}

// HarnessC03CopyDuringSettle: one goroutine settles a message while another takes a copy of it and settles the
// copy the other way: the copy is an independent, unsettled message at whatever moment it was taken.
func HarnessC03CopyDuringSettle() {
	m := c03Message(vrt.Int("kind", 0, 1))
	ackOrig := vrt.Bool("orig.ack")
	done := make(chan struct{}, 2)
	go func() {
		if ackOrig {
			m.Ack()
		} else {
			m.Nack()
		}
		done <- struct{}{}
	}()
	var cp *Message
	var got bool
	go func() {
		cp = m.Copy()
		vrt.Assert(settlement(cp) == 0, "a copy starts unsettled")
		if ackOrig {
			got = cp.Nack() // the opposite of what happens to the original
		} else {
			got = cp.Ack()
		}
		done <- struct{}{}
	}()
	<-done
	<-done
	vrt.Assert(got, "the first call on the copy wins, whatever happened to the original")
	want := 2
	if !ackOrig {
		want = 1
	}
	vrt.Assert(settlement(cp) == want, "the copy's settlement is its own")
	vrt.Assert(settlement(m) == 3-want, "and the original's is untouched by the copy")
}

func HarnessC03Race2() { c03Race(2) }
func HarnessC03Race3() { c03Race(3) }
func HarnessC03Race4() { c03Race(4) }

func HarnessC03Race5() { c03Race(5) }
