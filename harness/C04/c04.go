//verif:target pubsub/gochannel/zz_verif_c04.go

package gochannel

import (
	"context"

	"github.com/ThreeDotsLabs/watermill/message"
	"github.com/ThreeDotsLabs/watermill/zzverif/vrt"
)

// c04Deliver: one publisher publishing nMsgs messages to topic "t" while nSubs subscriptions (created
// before the first Publish) consume; each subscription nacks every message `nacks` times before acking.
// A further subscription on another topic must receive nothing.
func c04Deliver(cfg Config, nMsgs, nSubs, nacks int) {
	g := newPubSub(cfg)
	markers := []any{"s0", "s1", "s2"}
	subs := make([]*consumer, nSubs)
	done := make(chan struct{}, nSubs)
	for i := 0; i < nSubs; i++ {
		ch, err := g.Subscribe(markedCtx(markers[i]), "t")
		vrt.Assert(err == nil, "subscribe succeeds")
		subs[i] = &consumer{name: "s" + string(rune('0'+i)), ch: ch, nacks: nacks}
	}
	otherCh, err := g.Subscribe(markedCtx("other"), "other")
	vrt.Assert(err == nil, "subscribe succeeds")
	for i := 0; i < nSubs; i++ {
		i := i
		go func() { subs[i].run(nMsgs, markers[i]); done <- struct{}{} }()
	}
	originals := make([]*message.Message, nMsgs)
	for i := 0; i < nMsgs; i++ {
		originals[i] = newMsg(i)
		batch := []*message.Message{originals[i]} // the publisher's own argument slice
		vrt.Assert(g.Publish("t", batch...) == nil, "publish succeeds")
		vrt.Assert(batch[0] == originals[i], "Publish leaves the caller's argument slice alone")
		// what was published is what gets delivered: the publisher touching its own object after Publish
		// returned (e.g. reusing it) must not reach pending deliveries or redeliveries
		batch[0].Metadata.Set("k2", "added-by-publisher-after-publish")
	}
	for i := 0; i < nSubs; i++ {
		<-done
	}
	// every subscription got every message nacks+1 times, intact, in its own copies
	for _, c := range subs {
		vrt.Assert(!c.closed, "the subscription stays open")
		vrt.Assert(len(c.got) == nMsgs*(nacks+1), "every published message is delivered until acked, and only re-delivered after a Nack")
		for i := 0; i < nMsgs; i++ {
			n := 0
			for _, d := range c.got {
				if d.uuid == originals[i].UUID {
					n++
					vrt.Assert(d.payload == string(originals[i].Payload) && d.meta == "v"+string(rune('0'+i)), "each delivery carries the original UUID, payload and metadata (no leaked mutation)")
					vrt.Assert(d.ctxLive && d.ctxMine, "the delivery context derives from the Subscribe context and is live on receipt")
					vrt.Assert(d.msg != originals[i], "a delivery is never the publisher's original")
				}
			}
			vrt.Assert(n == nacks+1, "deliveries of one message = nacks + 1")
		}
		for _, d := range c.got {
			if !d.nacked {
				vrt.Assert(settlementOf(d.msg) == 1, "acked copy is acked")
			}
		}
	}
	for i := 0; i < nMsgs; i++ {
		vrt.Assert(settlementOf(originals[i]) == 0 && originals[i].Metadata.Get("k") == "v"+string(rune('0'+i)), "the publisher's original is neither settled nor modified")
	}
	vrt.Assert(vrt.ChanLen(otherCh) == 0, "nothing is delivered to a subscription of another topic")
	vrt.AtQuiescence(func() {
		for _, c := range subs {
			for _, d := range c.got {
				if !d.nacked {
					vrt.Assert(d.msg.Context().Err() != nil, "the delivery context is cancelled after the Ack")
				}
			}
		}
		vrt.Assert(vrt.ChanLen(otherCh) == 0, "nothing is ever delivered to a subscription of another topic")
	})
	vrt.Observe("deliveries", len(subs[0].got))
}

func HarnessC04Basic()      { c04Deliver(Config{}, 1, 1, 0) }
func HarnessC04TwoSubs()    { c04Deliver(Config{}, 1, 2, 0) }
func HarnessC04Nack()       { c04Deliver(Config{}, 1, 1, 1) }
func HarnessC04TwoMsgs()    { c04Deliver(Config{}, 2, 1, 0) }
func HarnessC04Buffered()   { c04Deliver(Config{OutputChannelBuffer: 1}, 2, 1, 0) }
func HarnessC04Persistent() { c04Deliver(Config{Persistent: true}, 1, 2, 0) }
func HarnessC04Blocking()   { c04Deliver(Config{BlockPublishUntilSubscriberAck: true}, 2, 2, 1) }
func HarnessC04Full()       { c04Deliver(Config{}, 2, 2, 1) }

// HarnessC04BufferedSlowSibling: with buffered output channels a subscription that holds its copy unsettled does not
// keep the message from the other subscriptions of the topic.
func HarnessC04BufferedSlowSibling() {
	g := newPubSub(Config{OutputChannelBuffer: int64(vrt.Int("buffer", 1, 2)), Persistent: vrt.Bool("persistent")})
	chA, err := g.Subscribe(context.Background(), "t")
	vrt.Assert(err == nil, "subscribe A")
	chB, err := g.Subscribe(context.Background(), "t")
	vrt.Assert(err == nil, "subscribe B")
	go func() {
		vrt.MayBlock()
		<-chA // received, never settled
	}()
	vrt.Assert(g.Publish("t", newMsg(0)) == nil, "publish")
	m := <-chB // main must get here
	vrt.Assert(m.UUID == "u0", "the other subscription receives the message although its sibling has not settled its copy")
	m.Ack()
}

// HarnessC04CancelOther: subscriptions A and B on one topic; A's context is cancelled at an arbitrary
// moment around a Publish. B stays open: it must receive the message exactly once (no duplicate, no loss).
func HarnessC04CancelOther() {
	g := newPubSub(Config{})
	ctxA, cancelA := context.WithCancel(markedCtx("A"))
	chA, err := g.Subscribe(ctxA, "t")
	vrt.Assert(err == nil, "subscribe A")
	chB, err := g.Subscribe(markedCtx("B"), "t")
	vrt.Assert(err == nil, "subscribe B")
	a := &consumer{name: "A", ch: chA}
	b := &consumer{name: "B", ch: chB}
	go func() { vrt.MayBlock(); a.loop("A") }()
	go func() { vrt.MayBlock(); b.loop("B") }()
	go cancelA()
	orig := newMsg(0)
	vrt.Assert(g.Publish("t", orig) == nil, "publish succeeds")
	vrt.AtQuiescence(func() {
		vrt.Assert(len(b.got) == 1, "the subscription that stays open receives the published message exactly once")
		vrt.Assert(len(a.got) <= 1, "the cancelled subscription receives it at most once")
		vrt.Assert(!b.closed, "cancelling one subscription leaves the other open")
	})
}

func HarnessC04ThreeSubs() { c04Deliver(Config{}, 1, 3, 1) }
func HarnessC04PersistentFull() {
	c04Deliver(Config{Persistent: true, OutputChannelBuffer: 1}, 2, 2, 1)
}
func HarnessC04ThreeMsgs() { c04Deliver(Config{}, 3, 1, 1) }

// HarnessC04Replace: subscriptions come and go between publishes: A (and optionally B) subscribe, a message is
// published and consumed, A's context is cancelled and its channel seen closed, C subscribes, a second message is
// published. "Every subscription that existed when Publish was called" is then B and C: each receives it once.
// (The consumers are the harness's main goroutine: only the Pub/Sub's own goroutines run concurrently.)
func HarnessC04Replace() {
	g := newPubSub(Config{})
	withB := vrt.Bool("another.subscription.stays")
	ctxA, cancelA := context.WithCancel(markedCtx("A"))
	chA, err := g.Subscribe(ctxA, "t")
	vrt.Assert(err == nil, "subscribe A")
	var chB <-chan *message.Message
	if withB {
		chB, err = g.Subscribe(markedCtx("B"), "t")
		vrt.Assert(err == nil, "subscribe B")
	}
	first, second := newMsg(0), newMsg(1)
	vrt.Assert(g.Publish("t", first) == nil, "first publish succeeds")
	m := <-chA
	vrt.Assert(m.UUID == first.UUID, "A receives the first message")
	m.Ack()
	if withB {
		m = <-chB
		vrt.Assert(m.UUID == first.UUID, "B receives the first message")
		m.Ack()
	}
	cancelA()
	_, open := <-chA // A's channel is closed; its removal from the topic may still be on its way
	vrt.Assert(!open, "the cancelled subscription's channel is closed")
	chC, err := g.Subscribe(markedCtx("C"), "t")
	vrt.Assert(err == nil, "subscribe C")
	vrt.Assert(g.Publish("t", second) == nil, "second publish succeeds")
	m = <-chC // blocks for ever (reported as a deadlock) if C is not served
	vrt.Assert(m.UUID == second.UUID, "a subscription made after another one ended receives what is published afterwards")
	m.Ack()
	if withB {
		m = <-chB
		vrt.Assert(m.UUID == second.UUID, "the subscription that stayed receives the second message too")
		m.Ack()
	}
	vrt.AtQuiescence(func() {
		vrt.Assert(vrt.ChanLen(chC) == 0 && (!withB || vrt.ChanLen(chB) == 0), "and nothing more")
	})
	vrt.Observe("withB", withB)
}
