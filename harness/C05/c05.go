//verif:target pubsub/gochannel/zz_verif_c05.go

package gochannel

import (
	"context"

	"github.com/ThreeDotsLabs/watermill"
	"github.com/ThreeDotsLabs/watermill/message"
	"github.com/ThreeDotsLabs/watermill/zzverif/vrt"
)

// probing consumer: while it holds an unsettled message nothing else may be receivable.
func c05Probe(ch <-chan *message.Message, n int, nackFirst bool, order *[]string, done chan<- struct{}) {
	for i := 0; i < n; i++ {
		m := <-ch
		*order = append(*order, m.UUID)
		vrt.Yield()
		select {
		case x, ok := <-ch:
			_ = x
			vrt.Assert(!ok, "no second message is receivable while one is unsettled")
		default:
		}
		if nackFirst && i == 0 {
			m.Nack()
			n++ // the nacked message comes again
			continue
		}
		m.Ack()
	}
	done <- struct{}{}
}

// HarnessC05OneUnsettled: regardless of buffer size a subscription never has two unsettled messages.
func HarnessC05OneUnsettled() {
	buf := int64(vrt.Int("buffer", 0, 2))
	g := NewGoChannel(Config{OutputChannelBuffer: buf, Persistent: vrt.Bool("persistent")}, watermill.NopLogger{})
	ch, err := g.Subscribe(context.Background(), "t")
	vrt.Assert(err == nil, "subscribe")
	var order []string
	done := make(chan struct{}, 1)
	go c05Probe(ch, 2, vrt.Bool("nack.first"), &order, done)
	vrt.Assert(g.Publish("t", newMsg(0)) == nil, "publish 0")
	vrt.Assert(g.Publish("t", newMsg(1)) == nil, "publish 1")
	<-done
}

// HarnessC05BlockingOrder: with BlockPublishUntilSubscriberAck, Publish returns only after every
// subscription acked, so every subscription receives one publisher's messages in publish order
// (also for several messages in one Publish call).
func HarnessC05BlockingOrder() {
	g := NewGoChannel(Config{BlockPublishUntilSubscriberAck: true, OutputChannelBuffer: int64(vrt.Int("buffer", 0, 1))}, watermill.NopLogger{})
	nSubs := 2
	orders := make([][]string, nSubs)
	acked := make([][]*message.Message, nSubs)
	for i := 0; i < nSubs; i++ {
		i := i
		ch, err := g.Subscribe(context.Background(), "t")
		vrt.Assert(err == nil, "subscribe")
		go func() {
			vrt.MayBlock()
			for m := range ch {
				orders[i] = append(orders[i], m.UUID)
				acked[i] = append(acked[i], m)
				m.Ack()
			}
		}()
	}
	m0, m1 := newMsg(0), newMsg(1)
	if vrt.Bool("published.messages.carry.a.cancelled.context") {
		// what the publisher's message object carries (the CQRS buses set a context) has no say in how long Publish waits
		cctx, ccancel := context.WithCancel(context.Background())
		ccancel()
		m0.SetContext(cctx)
		m1.SetContext(cctx)
	}
	if vrt.Bool("one.call") {
		vrt.Assert(g.Publish("t", m0, m1) == nil, "publish batch")
	} else {
		vrt.Assert(g.Publish("t", m0) == nil, "publish 0")
		for i := 0; i < nSubs; i++ {
			vrt.Assert(len(acked[i]) == 1 && settlementOf(acked[i][0]) == 1, "Publish returns only after every active subscription acked the message")
		}
		vrt.Assert(g.Publish("t", m1) == nil, "publish 1")
	}
	for i := 0; i < nSubs; i++ {
		vrt.Assert(len(orders[i]) == 2 && orders[i][0] == "u0" && orders[i][1] == "u1", "each subscription receives one publisher's messages in the order they were published")
		vrt.Assert(settlementOf(acked[i][1]) == 1, "Publish returns only after every active subscription acked the message")
	}
}

// HarnessC05BlockingCancel: a blocking Publish returns once the only subscription holding the message
// unsettled is cancelled (or the Pub/Sub is closed).
func HarnessC05BlockingCancel() {
	g := NewGoChannel(Config{BlockPublishUntilSubscriberAck: true}, watermill.NopLogger{})
	ctx, cancel := context.WithCancel(context.Background())
	ch, err := g.Subscribe(ctx, "t")
	vrt.Assert(err == nil, "subscribe")
	received := vrt.Bool("consumer.receives")
	go func() {
		vrt.MayBlock()
		if received {
			<-ch // received, never settled
		}
	}()
	closeInstead := vrt.Bool("close.instead")
	go func() {
		if closeInstead {
			g.Close()
		} else {
			cancel()
		}
	}()
	perr := g.Publish("t", newMsg(0))
	vrt.Assert(perr == nil || closeInstead, "publish returns (an error only if the Pub/Sub was closed first)")
	// main is MustFinish: reaching this point is the property (Publish returned)
	cancel()
}

// HarnessC05PublishFromLoop: the consumer publishes to another topic of the same Pub/Sub before acking,
// while a Subscribe to a third topic happens concurrently; the blocking Publish must still return.
func HarnessC05PublishFromLoop() {
	g := NewGoChannel(Config{BlockPublishUntilSubscriberAck: true}, watermill.NopLogger{})
	vrt.Tag("scenario", "consumer publishes before ack + concurrent Subscribe")
	ch, err := g.Subscribe(context.Background(), "in")
	vrt.Assert(err == nil, "subscribe")
	go func() {
		m := <-ch
		vrt.MustFinish()
		vrt.Assert(g.Publish("out", newMsg(1)) == nil, "inner publish (no subscribers on that topic)")
		m.Ack()
	}()
	go func() {
		vrt.MustFinish()
		_, err := g.Subscribe(context.Background(), "third")
		vrt.Assert(err == nil, "concurrent subscribe")
	}()
	vrt.Assert(g.Publish("in", newMsg(0)) == nil, "publish returns")
}

// HarnessC05PublishOtherTopic: in blocking mode a consumer publishes to ANOTHER topic of the same Pub/Sub before it
// acks; the other topic's name is arbitrary (two arbitrary bytes after "o": whatever the Pub/Sub derives from
// topic names - map slots, lock stripes - the solver may pick names that collide with "in"). Both the nested and
// the outer Publish return.
func HarnessC05PublishOtherTopic() {
	g := NewGoChannel(Config{BlockPublishUntilSubscriberAck: true, Persistent: vrt.Bool("persistent")}, watermill.NopLogger{})
	nb := vrt.Bytes("other.topic", 2)
	vrt.Assume(len(nb) == 2)
	other := "o" + string(nb)
	ch, err := g.Subscribe(context.Background(), "in")
	vrt.Assert(err == nil, "subscribe")
	go func() {
		m := <-ch
		vrt.MustFinish()
		vrt.Assert(g.Publish(other, newMsg(1)) == nil, "the nested publish to another topic returns (no subscribers there)")
		m.Ack()
	}()
	vrt.Assert(g.Publish("in", newMsg(0)) == nil, "publish returns once the subscriber acked")
}
