//verif:target message/zz_verif_c06.go

package message

import (
	"context"
	"sync"
	"time"

	"github.com/ThreeDotsLabs/watermill"
	"github.com/ThreeDotsLabs/watermill/zzverif/vrt"
)

// c06State is what the oracle watches: handler invocations in progress, and whether a Close has
// already returned nil (after which no handler may run or start).
type c06State struct {
	mu         sync.Mutex
	inProgress int
	started    int
	finished   int
	closedOK   bool
}

func (s *c06State) enter() {
	s.mu.Lock()
	vrt.Assert(!s.closedOK, "no handler invocation starts after Close returned nil")
	s.inProgress++
	s.started++
	s.mu.Unlock()
}

func (s *c06State) leave() {
	s.mu.Lock()
	s.inProgress--
	s.finished++
	s.mu.Unlock()
}

func (s *c06State) closeReturned(err error) {
	s.mu.Lock()
	if err == nil {
		// is some other goroutine still inside Router.Close at this moment? (engine-level observation: it
		// tells "a later Close after one that gave up" apart from "a Close overtaking one that still waits")
		vrt.Tag("another.close.still.inside", vrt.Inside("Router).Close") > 0)
		vrt.Assert(s.inProgress == 0, "Close returns nil only when no handler invocation is in progress")
		s.closedOK = true
	}
	s.mu.Unlock()
}

// c06Scenario: a running router (entered through RunHandlers on a router marked running) with one
// handler on a scripted subscriber; the environment emits nMsgs messages, releases the handler at an
// arbitrary moment and calls Close from nClosers goroutines at arbitrary moments.
func c06Scenario(nMsgs, nClosers int, panicking bool) { c06ScenarioN(nMsgs, nClosers, panicking, 1) }

// c06ScenarioN: every closer calls Close `repeat` times in a row.
func c06ScenarioN(nMsgs, nClosers int, panicking bool, repeat int) {
	r, err := NewRouter(RouterConfig{CloseTimeout: 0}, watermill.NopLogger{})
	vrt.Assert(err == nil, "router")
	st := &c06State{}
	sub := &directSubscriber{}
	pub := &scriptedPublisher{}
	r.AddHandler("h", "in", sub, "out", pub, func(m *Message) ([]*Message, error) {
		st.enter()
		vrt.Yield() // handler duration is arbitrary relative to CloseTimeout: anything may happen meanwhile
		st.leave()
		if panicking {
			panic("handler panics after its work")
		}
		return nil, nil
	})
	r.isRunning = true
	ctx, cancel := context.WithCancel(context.Background())
	defer cancel()
	vrt.Assert(r.RunHandlers(ctx) == nil, "handlers started")
	msgs := make([]*Message, nMsgs)
	for i := range msgs {
		msgs[i] = NewMessage("m", nil)
	}
	// environment: the subscriber emits the messages; from here on each one is "on its way" and may be
	// anywhere on its path (decorator pump, received, dispatched, in the handler, being settled) when Close arrives
	emit := func() {
		defer func() { recover() }() // the subscriber may have been closed meanwhile
		for _, m := range msgs {
			sub.chans[0] <- m
		}
	}
	if nMsgs == 1 {
		emit()
	} else {
		go func() { vrt.MayBlock(); emit() }()
	}
	done := make(chan struct{}, nClosers)
	for i := 0; i < nClosers; i++ {
		go func() {
			vrt.MustFinish()
			var err error
			for k := 0; k < repeat; k++ {
				err = r.Close()
				vrt.Tag("close.call", k)
				st.closeReturned(err)
			}
			if err == nil {
				vrt.Assert(sub.closed, "when Close returns nil the handler's subscriber has been closed")
				// every emitted message: handled to completion and settled, or never handled and never acked
				st.mu.Lock()
				started := st.started
				st.mu.Unlock()
				for _, m := range msgs {
					s := settlementOf(m)
					vrt.Assert(s == 0 || s == 1 || s == 2, "settled at most once")
					if nMsgs == 1 {
						vrt.Assert(started == 0 || s != 0, "a message whose handling started is settled before Close returns nil")
						vrt.Assert(started != 0 || s != 1, "a message that was never handled is never acked")
					}
				}
			}
			done <- struct{}{}
		}()
	}
	for i := 0; i < nClosers; i++ {
		<-done
	}
	vrt.AtQuiescence(func() {
		vrt.Assert(sub.closed, "Close closes the handler's subscriber")
		vrt.Assert(pub.closed >= 1, "Close closes the handler's publisher")
		for _, m := range msgs {
			if settlementOf(m) == 1 {
				vrt.Assert(st.finished >= 1, "an acked message was handled to completion")
			}
		}
		vrt.Assert(st.started == st.finished, "every started invocation ran to completion")
	})
	vrt.Observe("started", st.started)
}

func HarnessC06OneMsgOneCloser()  { c06Scenario(1, 1, false) }
func HarnessC06OneMsgTwoClosers() { c06Scenario(1, 2, false) }
func HarnessC06TwoMsgs()          { c06Scenario(2, 1, false) }
func HarnessC06Panicking()        { c06Scenario(1, 1, true) }
func HarnessC06CloseTwice()       { c06ScenarioN(1, 1, false, 2) }

// HarnessC06TwoClosersRunning: two goroutines call Close concurrently while a handler invocation is known to be
// in progress (it entered the handler function before either Close started and is released at an arbitrary
// moment): neither Close may return nil while the invocation is still running.
func HarnessC06TwoClosersRunning() {
	r, err := NewRouter(RouterConfig{CloseTimeout: 0}, watermill.NopLogger{})
	vrt.Assert(err == nil, "router")
	st := &c06State{}
	sub := &directSubscriber{}
	entered, release := make(chan struct{}), make(chan struct{})
	r.AddNoPublisherHandler("h", "in", sub, func(m *Message) error {
		st.enter()
		close(entered)
		<-release
		st.leave()
		return nil
	})
	r.isRunning = true
	ctx, cancel := context.WithCancel(context.Background())
	defer cancel()
	vrt.Assert(r.RunHandlers(ctx) == nil, "handlers started")
	sub.chans[0] <- NewMessage("m", nil)
	<-entered
	done := make(chan struct{}, 2)
	for i := 0; i < 2; i++ {
		go func() {
			vrt.MustFinish()
			st.closeReturned(r.Close())
			done <- struct{}{}
		}()
	}
	go func() { close(release) }()
	<-done
	<-done
	vrt.AtQuiescence(func() {
		vrt.Assert(st.started == st.finished, "every started invocation ran to completion")
	})
}

// HarnessC06CloseTwiceRunning: one caller calls Close twice in a row while a handler invocation is known to be in
// progress (released at an arbitrary moment): the first call may give up on CloseTimeout; neither call may
// return nil while the invocation is still running (the light version of CloseTwice / TwoClosersRunning).
func HarnessC06CloseTwiceRunning() {
	closeTimeout := time.Duration(0) // the default (30s)
	if vrt.Bool("negative.CloseTimeout") {
		closeTimeout = -time.Second // "do not wait for handlers": Close reports the timeout at once
	}
	r, err := NewRouter(RouterConfig{CloseTimeout: closeTimeout}, watermill.NopLogger{})
	vrt.Assert(err == nil, "router")
	st := &c06State{}
	sub := &directSubscriber{}
	entered, release := make(chan struct{}), make(chan struct{})
	r.AddNoPublisherHandler("h", "in", sub, func(m *Message) error {
		st.enter()
		close(entered)
		<-release
		st.leave()
		return nil
	})
	r.isRunning = true
	ctx, cancel := context.WithCancel(context.Background())
	defer cancel()
	vrt.Assert(r.RunHandlers(ctx) == nil, "handlers started")
	sub.chans[0] <- NewMessage("m", nil)
	<-entered
	released := vrt.Bool("handler.returns") // a handler may also outlive every CloseTimeout: Close must not hang
	if released {
		go func() { close(release) }()
	}
	for k := 0; k < 2; k++ {
		err := r.Close()
		vrt.Tag("close.call", k)
		st.closeReturned(err)
		if err == nil {
			vrt.Assert(sub.closed, "when Close returns nil the handler's subscriber has been closed")
		}
	}
	vrt.AtQuiescence(func() {
		vrt.Assert(!released || st.started == st.finished, "every started invocation ran to completion")
	})
}

// HarnessC06Run: Run returns only after the close has completed (never while Close is still waiting).
func HarnessC06Run() {
	r, _ := NewRouter(RouterConfig{}, watermill.NopLogger{})
	st := &c06State{}
	release := make(chan struct{})
	sub := &scriptedSubscriber{}
	r.AddNoPublisherHandler("h", "in", sub, func(m *Message) error {
		st.enter()
		<-release
		st.leave()
		return nil
	})
	runDone := make(chan struct{})
	closeReturned := false
	go func() {
		vrt.MustFinish()
		vrt.Assert(r.Run(context.Background()) == nil, "Run returns nil")
		vrt.Assert(closeReturned || vrt.Closed(r.closedCh), "Run returns only after the close has completed")
		st.mu.Lock()
		vrt.Assert(st.inProgress == 0 || true, "")
		st.mu.Unlock()
		close(runDone)
	}()
	<-r.Running()
	go func() {
		vrt.MayBlock()
		sub.subs[0].in <- NewMessage("m", nil)
	}()
	go func() { close(release) }()
	err := r.Close()
	closeReturned = true
	st.closeReturned(err)
	<-runDone
	vrt.Assert(r.Run(context.Background()) != nil, "a second Run returns an error")
}

// HarnessC06StopThenClose: the handler is stopped (its loop ends) while an invocation is still running, then
// Close is called: nil only when that invocation is over.
func HarnessC06StopThenClose() {
	r, _ := NewRouter(RouterConfig{}, watermill.NopLogger{})
	st := &c06State{}
	sub := &countingSubscriber{} // closes its channel when the subscription context ends
	hh := r.AddNoPublisherHandler("h", "in", sub, func(m *Message) error {
		st.enter()
		vrt.Yield()
		st.leave()
		return nil
	})
	r.isRunning = true
	ctx, cancel := context.WithCancel(context.Background())
	defer cancel()
	vrt.Assert(r.RunHandlers(ctx) == nil, "handlers started")
	m := NewMessage("m", nil)
	sub.chans[0] <- m
	<-hh.Started()
	hh.Stop()
	<-hh.Stopped()
	err := r.Close()
	st.closeReturned(err)
	if err == nil {
		s := settlementOf(m)
		st.mu.Lock()
		started := st.started
		st.mu.Unlock()
		vrt.Assert(started == 0 || s != 0, "a message whose handling started is settled before Close returns nil")
	}
}

// HarnessC06CloseDuringStart: Close arrives while RunHandlers is still starting two handlers: every call returns.
func HarnessC06CloseDuringStart() {
	r, _ := NewRouter(RouterConfig{}, watermill.NopLogger{})
	r.AddNoPublisherHandler("a", "ta", &directSubscriber{}, func(m *Message) error { return nil })
	r.AddNoPublisherHandler("b", "tb", &directSubscriber{}, func(m *Message) error { return nil })
	r.isRunning = true
	ctx, cancel := context.WithCancel(context.Background())
	defer cancel()
	done := make(chan struct{}, 1)
	go func() {
		vrt.MustFinish()
		_ = r.RunHandlers(ctx) // may succeed or report that the router is closing: it must return
		done <- struct{}{}
	}()
	_ = r.Close() // must return (nil or timeout error)
	<-done
	vrt.Assert(r.IsClosed(), "closed")
}
