//verif:target message/router/middleware/zz_verif_c06mw.go

package middleware

import (
	"context"
	"errors"
	"sync"
	"time"

	"github.com/ThreeDotsLabs/watermill"
	"github.com/ThreeDotsLabs/watermill/message"
	"github.com/ThreeDotsLabs/watermill/zzverif/models"
	"github.com/ThreeDotsLabs/watermill/zzverif/vrt"
)

// C06 with the library's own middlewares on the router: "no handler invocation is in progress" is about the
// user's handler function, whatever sits between it and the router. The handler ignores the message context
// (nothing obliges it to look at it), fails its first `fails` calls at once and then stays inside until it is
// released at an arbitrary moment; Close is called while it is known to be inside.
type c06mwState struct {
	mu         sync.Mutex
	inProgress int
	started    int
	finished   int
	closedOK   bool
}

func c06mwScenario(mw message.HandlerMiddleware, fails int) {
	r, err := message.NewRouter(message.RouterConfig{CloseTimeout: 0}, watermill.NopLogger{})
	vrt.Assert(err == nil, "router")
	st := &c06mwState{}
	sub := &message.ZZDirectSubscriber{}
	entered, release := make(chan struct{}), make(chan struct{})
	calls := 0
	if mw != nil {
		r.AddMiddleware(mw)
	}
	r.AddNoPublisherHandler("h", "in", sub, func(m *message.Message) error {
		calls++
		if calls <= fails {
			return errors.New("transient failure")
		}
		st.mu.Lock()
		vrt.Assert(!st.closedOK, "no handler invocation starts after Close returned nil")
		st.inProgress++
		st.started++
		st.mu.Unlock()
		if calls == fails+1 {
			close(entered)
		}
		<-release
		st.mu.Lock()
		st.inProgress--
		st.finished++
		st.mu.Unlock()
		return nil
	})
	ctx, cancel := context.WithCancel(context.Background())
	defer cancel()
	vrt.Assert(message.ZZStartHandlers(r, ctx) == nil, "handlers started")
	msg := message.NewMessage("m", nil)
	sub.Emit(msg)
	select {
	case <-entered:
	case <-msg.Acked(): // the middleware gave the message up before the handler got inside (e.g. Retry's time budget)
	case <-msg.Nacked():
	}
	go func() { close(release) }()
	cerr := r.Close()
	st.mu.Lock()
	if cerr == nil {
		vrt.Assert(st.inProgress == 0, "Close returns nil only when no handler invocation is in progress")
		vrt.Assert(sub.IsClosed(), "when Close returns nil the handler's subscriber has been closed")
		st.closedOK = true
	}
	st.mu.Unlock()
	vrt.AtQuiescence(func() {
		vrt.Assert(st.started == st.finished, "every started invocation ran to completion")
	})
	vrt.Observe("started", st.started)
}

// HarnessC06UnderTimeout: the Timeout middleware's deadline passes (at an arbitrary moment) while the handler is inside.
func HarnessC06UnderTimeout() { c06mwScenario(Timeout(50*time.Millisecond), 0) }

// HarnessC06UnderRetry: Retry with a time budget; the first attempt fails, the retried one is inside while Close waits.
func HarnessC06UnderRetry() {
	models.RandConst = true
	c06mwScenario(Retry{MaxRetries: 2, InitialInterval: 10 * time.Millisecond, MaxInterval: 20 * time.Millisecond,
		Multiplier: 2, MaxElapsedTime: 30 * time.Millisecond}.Middleware, 1)
}

// HarnessC06UnderSimple: one of the other simple middlewares (solver's choice), handler inside while Close waits.
func HarnessC06UnderSimple() {
	var mw message.HandlerMiddleware
	switch vrt.Int("middleware", 0, 4) {
	case 0:
		mw = Recoverer
	case 1:
		mw = InstantAck
	case 2:
		mw = CorrelationID
	case 3:
		mw = IgnoreErrors{}.Middleware
	case 4:
		mw = (&DelayOnError{InitialInterval: time.Millisecond, MaxInterval: 4 * time.Millisecond, Multiplier: 2}).Middleware
	}
	c06mwScenario(mw, 0)
}
