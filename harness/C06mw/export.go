//verif:target message/zz_verif_c06x.go

package message

import "context"

// Shims for harnesses of C06 that live outside package message (they install real middlewares of package
// middleware on a router): start the handlers of a router that is marked running (as C06's own harnesses do),
// and a directSubscriber usable from outside.

func ZZStartHandlers(r *Router, ctx context.Context) error {
	r.isRunning = true
	return r.RunHandlers(ctx)
}

type ZZDirectSubscriber struct{ directSubscriber }

func (s *ZZDirectSubscriber) Emit(m *Message) { s.chans[0] <- m }
func (s *ZZDirectSubscriber) IsClosed() bool   { return s.closed }
