//verif:target pubsub/gochannel/zz_verif_c07.go

package gochannel

import (
	"context"

	"github.com/ThreeDotsLabs/watermill"
	"github.com/ThreeDotsLabs/watermill/message"
	"github.com/ThreeDotsLabs/watermill/zzverif/vrt"
)

func c07Cfg() Config {
	return Config{Persistent: vrt.Bool("persistent"), BlockPublishUntilSubscriberAck: vrt.Bool("blocking")}
}

func c07AfterClose(g *GoChannel, outs []<-chan *message.Message) {
	vrt.Assert(g.Publish("t", newMsg(9)) != nil, "Publish after Close returns an error")
	_, err := g.Subscribe(context.Background(), "t")
	vrt.Assert(err != nil, "Subscribe after Close returns an error")
	vrt.AtQuiescence(func() {
		for _, ch := range outs {
			vrt.Assert(vrt.IsClosed(ch) || vrt.ChanLen(ch) > 0, "every output channel is closed after Close")
		}
		vrt.Assert(vrt.Live("gochannel.(*GoChannel)") == 0 && vrt.Live("gochannel.(*subscriber)") == 0, "no Pub/Sub goroutine remains after Close")
	})
}

// HarnessC07ClosePublish: Close concurrent with a Publish, with a consumer that reads and acks / never reads / holds the message unsettled.
func HarnessC07ClosePublish() {
	g := NewGoChannel(c07Cfg(), watermill.NopLogger{})
	ch, err := g.Subscribe(context.Background(), "t")
	vrt.Assert(err == nil, "subscribe")
	behaviour := vrt.Int("consumer", 0, 2) // 0 reads and acks, 1 never reads, 2 receives and never settles
	go func() {
		vrt.MayBlock()
		switch behaviour {
		case 0:
			for m := range ch {
				m.Ack()
			}
		case 2:
			<-ch
		}
	}()
	go func() {
		vrt.MustFinish()
		_ = g.Publish("t", newMsg(0)) // may succeed or report "closed": must return, must not panic
	}()
	vrt.Assert(g.Close() == nil, "Close returns")
	c07AfterClose(g, []<-chan *message.Message{ch})
}

// HarnessC07CloseSubscribe: Close concurrent with a Subscribe and a second Close.
func HarnessC07CloseSubscribe() {
	g := NewGoChannel(c07Cfg(), watermill.NopLogger{})
	var late <-chan *message.Message
	go func() {
		vrt.MustFinish()
		ch, err := g.Subscribe(context.Background(), "t")
		if err == nil {
			late = ch
		}
	}()
	go func() {
		vrt.MustFinish()
		vrt.Assert(g.Close() == nil, "second Close returns")
	}()
	vrt.Assert(g.Close() == nil, "Close returns")
	vrt.AtQuiescence(func() {
		if late != nil {
			vrt.Assert(vrt.IsClosed(late), "a subscription that made it in is closed by Close")
		}
		vrt.Assert(vrt.Live("gochannel.(*GoChannel)") == 0 && vrt.Live("gochannel.(*subscriber)") == 0, "no Pub/Sub goroutine remains after Close")
	})
}

// HarnessC07CloseSubscribeReplay: persistent mode with one message in the log; a Subscribe (whose replay
// goroutine walks the log) races with Close. The replay must never observe the log being torn down.
func HarnessC07CloseSubscribeReplay() {
	g := NewGoChannel(Config{Persistent: true, BlockPublishUntilSubscriberAck: vrt.Bool("blocking")}, watermill.NopLogger{})
	vrt.Assert(g.Publish("t", newMsg(0)) == nil, "publish into the log")
	var late <-chan *message.Message
	reads := vrt.Bool("consumer.reads")
	go func() {
		vrt.MayBlock()
		ch, err := g.Subscribe(context.Background(), "t")
		if err != nil {
			return
		}
		late = ch
		if reads {
			for m := range ch {
				m.Ack()
			}
		}
	}()
	vrt.Assert(g.Close() == nil, "Close returns")
	vrt.AtQuiescence(func() {
		if late != nil {
			vrt.Assert(vrt.IsClosed(late) || vrt.ChanLen(late) > 0, "a subscription that made it in is closed by Close")
		}
		vrt.Assert(vrt.Live("gochannel.(*GoChannel)") == 0 && vrt.Live("gochannel.(*subscriber)") == 0, "no Pub/Sub goroutine remains after Close")
	})
}

// HarnessC07Cancel: cancelling one subscription (while a Nack / unsettled message / publish is in
// progress) completes, closes that output channel and leaves the other subscription working.
func HarnessC07Cancel() {
	g := NewGoChannel(c07Cfg(), watermill.NopLogger{})
	ctxA, cancelA := context.WithCancel(context.Background())
	chA, err := g.Subscribe(ctxA, "t")
	vrt.Assert(err == nil, "subscribe A")
	chB, err := g.Subscribe(context.Background(), "t")
	vrt.Assert(err == nil, "subscribe B")
	behaviour := vrt.Int("consumerA", 0, 2) // 0 never reads, 1 receives then nacks, 2 receives and holds
	go func() {
		vrt.MayBlock()
		switch behaviour {
		case 1:
			if m, ok := <-chA; ok {
				m.Nack() // a Nack is in progress / the redelivery is pending when the cancel arrives
			}
		case 2:
			<-chA
		}
	}()
	gotB := 0
	go func() {
		vrt.MayBlock()
		for m := range chB {
			gotB++
			m.Ack()
		}
	}()
	go cancelA()
	blocking := g.config.BlockPublishUntilSubscriberAck
	vrt.Assert(g.Publish("t", newMsg(0)) == nil, "publish returns")
	_ = blocking
	vrt.AtQuiescence(func() {
		vrt.Assert(vrt.IsClosed(chA) || vrt.ChanLen(chA) > 0, "the cancelled subscription's output channel is closed")
		vrt.Assert(gotB == 1, "cancelling one subscription leaves the other receiving")
		vrt.Assert(!vrt.IsClosed(chB), "the other subscription stays open")
	})
}

// HarnessC07Decorated: a GoChannel wrapped in 1..2 MessageTransform subscriber decorators; Close must return
// also when nobody reads the decorated output channel.
func HarnessC07Decorated() {
	g := NewGoChannel(Config{}, watermill.NopLogger{})
	depth := vrt.Int("depth", 1, 2)
	var sub message.Subscriber = g
	for i := 0; i < depth; i++ {
		s, err := message.MessageTransformSubscriberDecorator(func(m *message.Message) {})(sub)
		vrt.Assert(err == nil, "decorated")
		sub = s
	}
	ch, err := sub.Subscribe(context.Background(), "t")
	vrt.Assert(err == nil, "subscribe")
	reads := vrt.Bool("consumer.reads")
	vrt.Tag("reads", reads)
	go func() {
		vrt.MayBlock()
		if reads {
			for m := range ch {
				m.Ack()
			}
		}
	}()
	vrt.Assert(g.Publish("t", newMsg(0)) == nil, "publish")
	if vrt.Bool("second.close.concurrently") {
		go func() {
			vrt.MustFinish()
			vrt.Assert(sub.Close() == nil, "a concurrent second Close of the decorated Pub/Sub returns")
		}()
	}
	vrt.Assert(sub.Close() == nil, "Close of the decorated Pub/Sub returns")
	vrt.Assert(vrt.IsClosed(ch) || vrt.ChanLen(ch) > 0, "after Close has returned the decorated output channel is closed")
	vrt.AtQuiescence(func() {
		vrt.Assert(vrt.IsClosed(ch) || vrt.ChanLen(ch) > 0, "the decorated output channel is closed after Close")
		vrt.Assert(vrt.Live("message.(*messageTransformSubscriberDecorator)") == 0, "no decorator goroutine remains after Close")
	})
}

// HarnessC07DecoratedCancel: cancelling the context of a subscription made through 1..2 decorators closes the
// decorated output channel (also when a delivered message sits there unread), leaves no pump behind, and a
// later Close still returns.
func HarnessC07DecoratedCancel() {
	g := NewGoChannel(Config{}, watermill.NopLogger{})
	depth := vrt.Int("depth", 1, 2)
	var sub message.Subscriber = g
	for i := 0; i < depth; i++ {
		s, err := message.MessageTransformSubscriberDecorator(func(m *message.Message) {})(sub)
		vrt.Assert(err == nil, "decorated")
		sub = s
	}
	ctx, cancel := context.WithCancel(context.Background())
	ch, err := sub.Subscribe(ctx, "t")
	vrt.Assert(err == nil, "subscribe")
	if vrt.Bool("message.in.flight") {
		vrt.Assert(g.Publish("t", newMsg(0)) == nil, "publish") // nobody reads it
	}
	cancel()
	for range ch {
		// main must get out of this loop: cancelling the subscription's context closes the decorated output channel
	}
	vrt.Assert(sub.Close() == nil, "a later Close returns")
	vrt.AtQuiescence(func() {
		vrt.Assert(vrt.Live("message.(*messageTransformSubscriberDecorator)") == 0, "and no decorator goroutine remains")
	})
}

// HarnessC07ClosePublishSubscribe: blocking mode; a Publish waits for the ack of a message its subscriber holds
// unsettled, a Subscribe arrives meanwhile, then Close: Close returns, Publish and Subscribe return.
func HarnessC07ClosePublishSubscribe() {
	g := NewGoChannel(Config{BlockPublishUntilSubscriberAck: true, Persistent: vrt.Bool("persistent")}, watermill.NopLogger{})
	ch, err := g.Subscribe(context.Background(), "t")
	vrt.Assert(err == nil, "subscribe")
	held := make(chan struct{})
	go func() {
		vrt.MayBlock()
		<-ch // received and never settled
		close(held)
	}()
	go func() {
		vrt.MustFinish()
		_ = g.Publish("t", newMsg(0)) // returns when the Pub/Sub is closed
	}()
	<-held
	go func() {
		vrt.MustFinish()
		_, _ = g.Subscribe(context.Background(), "t") // succeeds or reports "closed": it returns
	}()
	vrt.Assert(g.Close() == nil, "Close returns although a Publish waits for an ack and a Subscribe is queued behind it")
}

// HarnessC07DecoratorShared: one decorator value wraps two Pub/Subs (what Router.AddSubscriberDecorators does for
// every handler): closing one of them leaves the other working, and closing the other afterwards terminates.
func HarnessC07DecoratorShared() {
	dec := message.MessageTransformSubscriberDecorator(func(m *message.Message) {})
	g1 := NewGoChannel(Config{}, watermill.NopLogger{})
	g2 := NewGoChannel(Config{}, watermill.NopLogger{})
	s1, err := dec(g1)
	vrt.Assert(err == nil, "decorated 1")
	s2, err := dec(g2)
	vrt.Assert(err == nil, "decorated 2")
	ch1, err := s1.Subscribe(context.Background(), "t")
	vrt.Assert(err == nil, "subscribe 1")
	ch2, err := s2.Subscribe(context.Background(), "t")
	vrt.Assert(err == nil, "subscribe 2")
	vrt.Assert(s1.Close() == nil, "Close of the first returns")
	vrt.Assert(vrt.IsClosed(ch1), "its output channel is closed")
	got := 0
	received, done := make(chan struct{}, 1), make(chan struct{})
	go func() {
		vrt.MayBlock()
		for m := range ch2 {
			got++
			m.Ack()
			received <- struct{}{}
		}
		close(done)
	}()
	vrt.Assert(g2.Publish("t", newMsg(0)) == nil, "publish to the other")
	<-received // main must get here: closing one decorated subscriber leaves the other working
	vrt.Assert(s2.Close() == nil, "Close of the second returns")
	<-done
	vrt.Assert(got == 1, "the message arrived once")
}

// HarnessC07DecoratedSubscribeClose: Subscribe on a decorated subscriber racing with Close: after Close has
// returned, the output channel of a subscription that was established is closed and no pump remains.
func HarnessC07DecoratedSubscribeClose() {
	g := NewGoChannel(Config{}, watermill.NopLogger{})
	sub, err := message.MessageTransformSubscriberDecorator(func(m *message.Message) {})(g)
	vrt.Assert(err == nil, "decorated")
	var ch <-chan *message.Message
	subscribed := make(chan struct{})
	go func() {
		c, err := sub.Subscribe(context.Background(), "t")
		if err == nil {
			ch = c
		}
		close(subscribed)
	}()
	vrt.Assert(sub.Close() == nil, "Close returns")
	closedAtReturn := true
	select {
	case <-subscribed:
		if ch != nil {
			closedAtReturn = vrt.IsClosed(ch)
		}
	default:
		// Subscribe still in progress when Close returned: nothing to check at this instant
	}
	<-subscribed
	vrt.AtQuiescence(func() {
		if ch != nil {
			vrt.Assert(vrt.IsClosed(ch), "a subscription made around Close ends up closed")
		}
		vrt.Assert(vrt.Live("message.(*messageTransformSubscriberDecorator)") == 0, "no decorator goroutine remains")
	})
	_ = closedAtReturn
}
