//verif:target message/zz_verif_c08.go

package message

import (
	"context"
	"strconv"

	"github.com/ThreeDotsLabs/watermill"
	"github.com/ThreeDotsLabs/watermill/zzverif/vrt"
)

type c08Seen struct {
	handler                                       string
	msg                                           *Message
	hName, subTopic, pubTopic, pubName, subName string
}

// c08NamedSub: a subscriber that names itself per instance (fmt.Stringer), as Pub/Subs with a configured name do
type c08NamedSub struct {
	*directSubscriber
	name string
}

func (s c08NamedSub) String() string { return s.name }

type c08PubA struct{ scriptedPublisher }
type c08PubB struct{ scriptedPublisher }

// c08Feed delivers one message to handler h through its (decorated) subscription and waits for settlement.
func c08Start(r *Router, h *handler, ctx context.Context) {
	vrt.Assert(r.decorateHandlerPublisher(h) == nil && r.decorateHandlerSubscriber(h) == nil, "decorated")
	ch, err := h.subscriber.Subscribe(ctx, h.subscribeTopic)
	vrt.Assert(err == nil, "subscribed")
	h.messagesCh = ch
	hctx, cancel := context.WithCancel(ctx)
	h.stopFn = cancel
	r.middlewaresLock.Lock()
	mws := append([]middleware{}, r.middlewares...)
	r.middlewaresLock.Unlock()
	go h.run(hctx, mws)
}

// HarnessC08Route: two handlers with arbitrary (possibly shared) topics and publishers; each message is
// passed to its handler's function only and the outputs go, unmodified and in order, to that handler's
// publisher on that handler's publish topic; contexts report that handler's values.
func HarnessC08Route() {
	r, _ := NewRouter(RouterConfig{}, watermill.NopLogger{})
	topics := []string{"t0", "t1"}
	// pubA and pubA2 are two publisher values of one Go type, pubB has a type of its own
	pubA, pubA2, pubB := &c08PubA{}, &c08PubA{}, &c08PubB{}
	if vrt.Bool("router.has.a.publisher.decorator") {
		r.AddPublisherDecorators(MessageTransformPublisherDecorator(func(m *Message) {}))
	}
	var seen []c08Seen
	var outs [2][]*Message
	var m0, m1 *Message
	var wantSubName [2]string
	redeliveredTo0 := false
	mk := func(i int, name string) (*handler, *directSubscriber, Publisher, string, string) {
		p := "h" + strconv.Itoa(i) + "."
		subTopic := vrt.PickStr(p+"subtopic", topics[0], topics[1])
		pubTopic := vrt.PickStr(p+"pubtopic", topics[0], topics[1])
		var pub Publisher = pubA
		switch vrt.Int(p+"publisher", 0, 2) {
		case 1:
			pub = pubA2
		case 2:
			pub = pubB
		}
		nOut := 2 * vrt.Int(p+"nout", 0, 1)
		echo := i == 0 // handler 0 returns the consumed message object itself as first output
		sub := &directSubscriber{}
		var asSub Subscriber = sub
		wantSubName[i] = "message.directSubscriber"
		if vrt.Bool(p + "sub.names.itself") {
			wantSubName[i] = "sub-" + strconv.Itoa(i)
			asSub = c08NamedSub{sub, wantSubName[i]}
		}
		fn := func(m *Message) ([]*Message, error) {
			ctx := m.Context()
			seen = append(seen, c08Seen{handler: name, msg: m, hName: HandlerNameFromCtx(ctx), subTopic: SubscribeTopicFromCtx(ctx),
				pubTopic: PublishTopicFromCtx(ctx), pubName: PublisherNameFromCtx(ctx), subName: SubscriberNameFromCtx(ctx)})
			var out []*Message
			for k := 0; k < nOut; k++ {
				if k == 0 && echo {
					out = append(out, m)
				} else {
					out = append(out, NewMessage(name+"-out"+strconv.Itoa(k), nil))
				}
			}
			outs[i] = out
			return out, nil
		}
		r.AddHandler(name, subTopic, asSub, pubTopic, pub, fn)
		return r.handlers[name], sub, pub, subTopic, pubTopic
	}
	name0 := "H0"
	switch vrt.Int("h0.name", 0, 2) {
	case 1:
		name0 = "" // the empty handler name is legal
	case 2:
		name0 = "h1" // differs from the other handler's name by letter case only
	}
	h0, sub0, p0, st0, pt0 := mk(0, name0)
	h1, sub1, p1, st1, pt1 := mk(1, "H1")
	// a handler-level middleware of handler 0 that marks its outputs: it must never run for handler 1
	mwRuns := 0
	(&Handler{router: r, handler: h0}).AddMiddleware(func(h HandlerFunc) HandlerFunc {
		return func(m *Message) ([]*Message, error) {
			mwRuns++
			vrt.Assert(m == m0 || m == nil || mwRuns >= 0, "")
			return h(m)
		}
	})
	ctx, cancel := context.WithCancel(context.Background())
	c08Start(r, h0, ctx)
	c08Start(r, h1, ctx)
	m0, m1 = NewMessage("m0", nil), NewMessage("m1", nil)
	sub0.chans[0] <- m0
	<-m0.Acked()
	sub1.chans[0] <- m1
	<-m1.Acked()
	vrt.Assert(mwRuns == 1, "a handler-level middleware runs for its own handler only")
	// a message already enriched by handler 0 (its context carries H0's values) now arrives for handler 1
	redeliver := vrt.Bool("redeliver")
	if redeliver {
		m0b := NewMessage("m0b", nil)
		m0b.SetContext(m0.Context())
		sub1.chans[0] <- m0b
		<-m0b.Acked()
		last := seen[len(seen)-1]
		vrt.Assert(last.handler == "H1" && last.hName == "H1" && last.subTopic == st1 && last.pubTopic == pt1, "the context reports the consuming handler's values even if the message was enriched elsewhere before")
		seen = seen[:len(seen)-1]
	}

	if vrt.Bool("redeliver.to.h0") {
		m1b := NewMessage("m1b", nil)
		m1b.SetContext(m1.Context())
		prev := len(outs[0])
		sub0.chans[0] <- m1b
		<-m1b.Acked()
		last := seen[len(seen)-1]
		vrt.Assert(last.handler == name0 && last.hName == name0 && last.subTopic == st0 && last.pubTopic == pt0, "the context reports the consuming handler's values even if the message was enriched elsewhere before")
		seen = seen[:len(seen)-1]
		if prev > 0 {
			redeliveredTo0 = true
		}
		mwRuns--
	}

	vrt.Assert(len(seen) == 2, "each message is handled exactly once")
	_ = name0
	for _, s := range seen {
		own := m0
		h, st, pt, p := h0, st0, pt0, p0
		if s.msg == m1 {
			own, h, st, pt, p = m1, h1, st1, pt1, p1
		}
		_ = h
		vrt.Assert(s.msg == own, "a message is passed to the function of the handler it arrived for, only")
		vrt.Assert(s.hName == s.handler && s.subTopic == st && s.pubTopic == pt, "the context reports the handler's name and topics")
		wantPub := "message.c08PubA"
		if p == Publisher(pubB) {
			wantPub = "message.c08PubB"
		}
		wantSub := wantSubName[0]
		if s.msg == m1 {
			wantSub = wantSubName[1]
		}
		vrt.Assert(s.pubName == wantPub && s.subName == wantSub, "the context reports the Pub/Sub type names (or the names the Pub/Subs give themselves)")
	}
	// publisher calls
	total := 0
	check := func(i int, p Publisher, pt string) {
		out := outs[i]
		if len(out) == 0 {
			return
		}
		total++
		var calls []pubCall
		switch p {
		case Publisher(pubA):
			calls = pubA.calls
		case Publisher(pubA2):
			calls = pubA2.calls
		default:
			calls = pubB.calls
		}
		found := false
		for _, c := range calls {
			if len(c.msgs) > 0 && c.msgs[0] == out[0] {
				same := c.topic == pt && len(c.msgs) == len(out)
				for k := 0; same && k < len(out); k++ {
					if c.msgs[k] != out[k] {
						same = false
					}
				}
				if same {
					found = true
				}
			}
		}
		vrt.Assert(found, "outputs go unmodified and in order to the handler's publisher on the handler's publish topic")
		for _, m := range out {
			c := m.Context()
			wantName := "H1"
			if i == 0 {
				wantName = name0
			}
			vrt.Assert(HandlerNameFromCtx(c) == wantName && PublishTopicFromCtx(c) == pt, "produced messages carry the handler's context")
		}
	}
	check(0, p0, pt0)
	check(1, p1, pt1)
	if redeliver && len(outs[1]) > 0 {
		total++ // handler 1 ran twice
	}
	if redeliveredTo0 {
		total++ // handler 0 ran twice
	}
	vrt.Assert(len(pubA.calls)+len(pubA2.calls)+len(pubB.calls) == total, "and nowhere else")
	vrt.Observe("pubcalls", len(pubA.calls)+len(pubA2.calls)+len(pubB.calls))
	cancel()
}

// HarnessC08NoPublisher: a no-publisher handler whose chain (a middleware) returns messages gets a Nack; nothing is published.
func HarnessC08NoPublisher() {
	r, _ := NewRouter(RouterConfig{}, watermill.NopLogger{})
	adds := vrt.Bool("mw.adds")
	sub := &scriptedSubscriber{}
	var inName, inSub, inPub string
	fails := vrt.Bool("handler.fails")
	var mwSaw error
	hh := r.AddNoPublisherHandler("N", "tn", sub, func(m *Message) error {
		c := m.Context()
		inName, inSub, inPub = HandlerNameFromCtx(c), SubscribeTopicFromCtx(c), PublishTopicFromCtx(c)
		if fails {
			return errScripted
		}
		return nil
	})
	hh.AddMiddleware(func(h HandlerFunc) HandlerFunc {
		return func(m *Message) ([]*Message, error) {
			out, err := h(m)
			mwSaw = err
			if adds {
				out = append(out, NewMessage("extra", nil))
			}
			return out, err
		}
	})
	h := r.handlers["N"]
	ctx, cancel := context.WithCancel(context.Background())
	vrt.Assert(r.decorateHandlerPublisher(h) == nil && r.decorateHandlerSubscriber(h) == nil, "decorated")
	ch, _ := h.subscriber.Subscribe(ctx, h.subscribeTopic)
	h.messagesCh = ch
	h.stopFn = cancel
	go h.run(ctx, append([]middleware{}, r.middlewares...))
	m := NewMessage("m", nil)
	if vrt.Bool("arrives.enriched") {
		// the message object was handled before by a handler (of any router) that had a publish topic
		// (of this or of another router: the other handler may even have the same name)
		c := context.WithValue(context.Background(), handlerNameKey, vrt.PickStr("prior.handler", "other", "N"))
		c = context.WithValue(c, subscribeTopicKey, "other-in")
		c = context.WithValue(c, publishTopicKey, "other-out")
		m.SetContext(c)
	}
	sub.subs[0].in <- m
	select {
	case <-m.Acked():
	case <-m.Nacked():
	}
	vrt.Assert(inName == "N" && inSub == "tn" && inPub == "", "inside the handler the context reports that handler's name and topics (it has no publish topic), whatever the message carried before")
	vrt.Observe("settled", settlementOf(m))
	if fails {
		vrt.Assert(mwSaw == errScripted, "the middlewares of a no-publisher handler see exactly the error its function returned (filters compare errors)")
		vrt.Assert(settlementOf(m) == 2, "a handler error means Nack")
	} else if adds {
		vrt.Assert(mwSaw == nil, "no error")
		vrt.Assert(settlementOf(m) == 2, "output from a middleware in a no-publisher handler means Nack")
	} else {
		vrt.Assert(settlementOf(m) == 1, "no output: Ack")
	}
	cancel()
}

// HarnessC08ReAdd: the supported way of replacing a handler on a running router: Stop, wait for Stopped(),
// AddHandler under the same name (other topics, other subscriber and publisher), RunHandlers. Messages of the
// new handler go to the new function, see the new names in their context and their outputs reach the new
// publisher on the new topic only; nothing of the stopped handler is left behind.
func HarnessC08ReAdd() {
	r, _ := NewRouter(RouterConfig{}, watermill.NopLogger{})
	r.isRunning = true
	ctx, cancel := context.WithCancel(context.Background())
	defer cancel()
	sub1, sub2 := &countingSubscriber{}, &countingSubscriber{}
	pub1, pub2 := &scriptedPublisher{name: "p1"}, &scriptedPublisher{name: "p2"}
	calls1, calls2 := 0, 0
	var in2Name, in2Sub, in2Pub string
	o1, o2 := NewMessage("o1", nil), NewMessage("o2", nil)
	if vrt.Bool("router.has.publisher.decorator") {
		r.AddPublisherDecorators(func(p Publisher) (Publisher, error) { return p, nil })
	}
	h1 := r.AddHandler("h", "in1", sub1, "out1", pub1, func(m *Message) ([]*Message, error) {
		calls1++
		return []*Message{o1}, nil
	})
	vrt.Assert(r.RunHandlers(ctx) == nil, "first handler started")
	m1 := NewMessage("m1", nil)
	sub1.chans[0] <- m1
	<-m1.Acked()
	h1.Stop()
	<-h1.Stopped()
	h2 := r.AddHandler("h", "in2", sub2, "out2", pub2, func(m *Message) ([]*Message, error) {
		calls2++
		c := m.Context()
		in2Name, in2Sub, in2Pub = HandlerNameFromCtx(c), SubscribeTopicFromCtx(c), PublishTopicFromCtx(c)
		return []*Message{o2}, nil
	})
	vrt.Assert(r.RunHandlers(ctx) == nil, "replacement started")
	<-h2.Started()
	vrt.Assert(len(sub2.chans) == 1 && len(sub1.chans) == 1, "the replacement subscribes on its own subscriber, once")
	if len(sub2.chans) != 1 {
		return
	}
	m2 := NewMessage("m2", nil)
	sub2.chans[0] <- m2
	select {
	case <-m2.Acked():
	case <-m2.Nacked():
	}
	vrt.Assert(calls1 == 1 && calls2 == 1, "each message is passed to the function of the handler it arrived for, only")
	vrt.Assert(in2Name == "h" && in2Sub == "in2" && in2Pub == "out2", "inside the replacement the context reports its own topics")
	vrt.Assert(len(pub1.calls) == 1 && pub1.calls[0].topic == "out1" && len(pub1.calls[0].msgs) == 1 && pub1.calls[0].msgs[0] == o1, "the first handler's output went to its publisher and topic; nothing else ever does")
	vrt.Assert(len(pub2.calls) == 1 && pub2.calls[0].topic == "out2" && len(pub2.calls[0].msgs) == 1 && pub2.calls[0].msgs[0] == o2, "the replacement's output goes to its own publisher on its own topic")
	vrt.Assert(settlementOf(m2) == 1, "and the message is acked")
	vrt.Observe("calls2", calls2)
}
