//verif:target message/zz_verif_c09.go

package message

import (
	"context"
	"strconv"
	"sync"

	"github.com/ThreeDotsLabs/watermill"
	"github.com/ThreeDotsLabs/watermill/zzverif/vrt"
)

type c09Trace struct{ ev []int }

// recording middleware number i: enter = i+1, leave = -(i+1)
func c09Rec(tr *c09Trace, i int) HandlerMiddleware {
	return func(h HandlerFunc) HandlerFunc {
		return func(m *Message) ([]*Message, error) {
			tr.ev = append(tr.ev, i+1)
			out, err := h(m)
			tr.ev = append(tr.ev, -(i + 1))
			return out, err
		}
	}
}

// c09RunOne pushes one message through the real handler.run loop (middleware wrap loop included).
func c09RunOne(r *Router, h *handler) {
	msg := NewMessage("m-"+h.name, nil)
	ch := make(chan *Message, 1)
	ch <- msg
	close(ch)
	h.messagesCh = ch
	ctx, cancel := context.WithCancel(context.Background())
	h.stopFn = cancel
	r.middlewaresLock.Lock()
	middlewares := append([]middleware{}, r.middlewares...)
	r.middlewaresLock.Unlock()
	h.run(ctx, middlewares)
	<-msg.Acked()
	cancel()
}

func c09Program(length int) {
	r, err := NewRouter(RouterConfig{}, watermill.NopLogger{})
	vrt.Assert(err == nil, "router created")
	tr := &c09Trace{}
	sub := &scriptedSubscriber{}
	hf := func(m *Message) error { tr.ev = append(tr.ev, 0); return nil }
	nameA := vrt.PickStr("nameA", "A", "") // handler names are arbitrary strings; the empty name is legal
	hA := r.AddNoPublisherHandler(nameA, "ta", sub, hf)
	var hB *Handler
	addBAt := vrt.Int("addB.at", 0, length) // handler B is added before program step addB.at
	kinds := make([]int, length)
	for i := 0; i < length; i++ {
		if i == addBAt {
			hB = r.AddNoPublisherHandler("B", "tb", sub, hf)
		}
		hi := 1
		if hB != nil {
			hi = 2
		}
		k := vrt.Int("step"+strconv.Itoa(i), 0, hi) // 0 router-level, 1 handler A, 2 handler B
		kinds[i] = k
		switch k {
		case 0:
			r.AddMiddleware(c09Rec(tr, i))
		case 1:
			hA.AddMiddleware(c09Rec(tr, i))
		case 2:
			hB.AddMiddleware(c09Rec(tr, i))
		}
	}
	if hB == nil {
		hB = r.AddNoPublisherHandler("B", "tb", sub, hf)
	}
	for _, which := range []int{1, 2} {
		tr.ev = nil
		if which == 1 {
			c09RunOne(r, hA.handler)
		} else {
			c09RunOne(r, hB.handler)
		}
		// expected: enter events of router-level and own middlewares ascending, the handler, leaves descending
		var want []int
		for i := 0; i < length; i++ {
			if kinds[i] == 0 || kinds[i] == which {
				want = append(want, i+1)
			}
		}
		want = append(want, 0)
		for i := length - 1; i >= 0; i-- {
			if kinds[i] == 0 || kinds[i] == which {
				want = append(want, -(i + 1))
			}
		}
		ok := len(want) == len(tr.ev)
		if ok {
			for i := range want {
				if want[i] != tr.ev[i] {
					ok = false
				}
			}
		}
		vrt.Observe("trace.len."+strconv.Itoa(which), len(tr.ev))
		vrt.Assert(ok, "each handler runs exactly the router-level middlewares plus its own, nested in registration order with the earliest outermost")
	}
}

func HarnessC09Middlewares3() { c09Program(3) }
func HarnessC09Middlewares4() { c09Program(4) }
func HarnessC09Middlewares6() { c09Program(6) }

// HarnessC09PublisherDecorators: publisher decorators see an outgoing message in the order they were added.
func HarnessC09PublisherDecorators() {
	n := vrt.Int("n", 0, 3)
	r, _ := NewRouter(RouterConfig{}, watermill.NopLogger{})
	tr := &c09Trace{}
	for i := 0; i < n; i++ {
		i := i
		r.AddPublisherDecorators(MessageTransformPublisherDecorator(func(m *Message) { tr.ev = append(tr.ev, i) }))
	}
	pub := &scriptedPublisher{}
	// several handlers on one router: every one of them gets the decorators in the same order
	names := []string{"A", "B", "C"}
	for _, nm := range names {
		r.AddHandler(nm, "t"+nm, &scriptedSubscriber{}, "out", pub, PassthroughHandler)
	}
	for k, nm := range names {
		h := r.handlers[nm]
		vrt.Assert(r.decorateHandlerPublisher(h) == nil, "decorators applied")
		tr.ev = nil
		msg := NewMessage("m", nil)
		vrt.Assert(h.publisher.Publish("out", msg) == nil, "publish through the decorated publisher")
		ok := len(tr.ev) == n
		for i := 0; ok && i < n; i++ {
			if tr.ev[i] != i {
				ok = false
			}
		}
		vrt.Observe("seen", len(tr.ev))
		vrt.Assert(ok, "publisher decorators act on outgoing messages in the order they were added, for every handler")
		vrt.Assert(len(pub.calls) == k+1 && pub.calls[k].topic == "out" && len(pub.calls[k].msgs) == 1 && pub.calls[k].msgs[0] == msg, "the message reaches the real publisher once, unmodified")
	}
}

// HarnessC09SubscriberDecorators: subscriber decorators see an incoming message in the order they were
// added, after the router's own context decorator.
func HarnessC09SubscriberDecorators() {
	n := vrt.Int("n", 0, 2)
	r, _ := NewRouter(RouterConfig{}, watermill.NopLogger{})
	tr := &c09Trace{}
	ctxSeen := make([]bool, 2)
	for i := 0; i < n; i++ {
		i := i
		r.AddSubscriberDecorators(MessageTransformSubscriberDecorator(func(m *Message) {
			tr.ev = append(tr.ev, i)
			ctxSeen[i] = HandlerNameFromCtx(m.Context()) == "A"
		}))
	}
	sub := &scriptedSubscriber{}
	r.AddNoPublisherHandler("A", "ta", sub, func(m *Message) error { return nil })
	h := r.handlers["A"]
	vrt.Assert(r.decorateHandlerSubscriber(h) == nil, "decorators applied")
	ctx, cancel := context.WithCancel(context.Background())
	ch, err := h.subscriber.Subscribe(ctx, "ta")
	vrt.Assert(err == nil, "subscribed through the decorated subscriber")
	msg := NewMessage("m", nil)
	sub.subs[0].in <- msg
	got := <-ch
	vrt.Assert(got == msg, "the message arrives unmodified (same object)")
	ok := len(tr.ev) == n
	for i := 0; ok && i < n; i++ {
		if tr.ev[i] != i || !ctxSeen[i] {
			ok = false
		}
	}
	vrt.Observe("seen", len(tr.ev))
	vrt.Assert(ok, "subscriber decorators act on incoming messages in the order they were added and see the handler context")
	cancel()
}

// HarnessC09DecoratorsRunHandlers: the decorators through the public API of a running router: handler A is started
// by RunHandlers, handler B is added later and started by a second RunHandlers call (and a third, idle one). A
// message through A and one through B each pass every publisher and subscriber decorator exactly once, in the
// order of registration.
func HarnessC09DecoratorsRunHandlers() {
	np := vrt.Int("publisher.decorators", 0, 2)
	ns := vrt.Int("subscriber.decorators", 0, 1)
	r, _ := NewRouter(RouterConfig{}, watermill.NopLogger{})
	r.isRunning = true
	var mu sync.Mutex
	var pubSeen, subSeen []int
	// one of the publisher decorators may fail the first time it is applied (a transient fault): RunHandlers then
	// reports the error and is simply called again
	failingAt := vrt.Int("publisher.decorator.failing.once", -1, 1)
	vrt.Assume(failingAt < np)
	failedOnce := false
	for i := 0; i < np; i++ {
		i := i
		dec := MessageTransformPublisherDecorator(func(m *Message) {
			mu.Lock()
			pubSeen = append(pubSeen, i)
			mu.Unlock()
		})
		if i == failingAt {
			r.AddPublisherDecorators(func(p Publisher) (Publisher, error) {
				if !failedOnce {
					failedOnce = true
					return nil, errScripted
				}
				return dec(p)
			})
		} else {
			r.AddPublisherDecorators(dec)
		}
	}
	for i := 0; i < ns; i++ {
		i := i
		r.AddSubscriberDecorators(MessageTransformSubscriberDecorator(func(m *Message) {
			mu.Lock()
			subSeen = append(subSeen, i)
			mu.Unlock()
		}))
	}
	pub := &scriptedPublisher{}
	subA, subB := &countingSubscriber{}, &countingSubscriber{}
	ctx, cancel := context.WithCancel(context.Background())
	defer cancel()
	r.AddHandler("A", "ta", subA, "out", pub, PassthroughHandler)
	if failingAt >= 0 {
		vrt.Assert(r.RunHandlers(ctx) != nil, "RunHandlers reports the decorator's error")
		vrt.Assert(subA.subscribes == 0, "and has not subscribed the handler")
	}
	vrt.Assert(r.RunHandlers(ctx) == nil, "first (successful) RunHandlers")
	hB := r.AddHandler("B", "tb", subB, "out", pub, PassthroughHandler)
	bRuns := 0
	hB.AddMiddleware(func(h HandlerFunc) HandlerFunc { // a handler added to a running router has its own middlewares too
		return func(m *Message) ([]*Message, error) {
			mu.Lock()
			bRuns++
			mu.Unlock()
			return h(m)
		}
	})
	vrt.Assert(r.RunHandlers(ctx) == nil, "second RunHandlers starts the late handler")
	vrt.Assert(r.RunHandlers(ctx) == nil, "a further RunHandlers changes nothing")
	vrt.Assert(subA.subscribes == 1 && subB.subscribes == 1, "each handler subscribed once")
	for k, sub := range []*countingSubscriber{subA, subB} {
		mu.Lock()
		pubSeen, subSeen = nil, nil
		mu.Unlock()
		m := NewMessage("m", nil)
		sub.chans[0] <- m
		<-m.Acked()
		mu.Lock()
		okP := len(pubSeen) == np
		for i := 0; okP && i < np; i++ {
			okP = pubSeen[i] == i
		}
		okS := len(subSeen) == ns
		for i := 0; okS && i < ns; i++ {
			okS = subSeen[i] == i
		}
		mu.Unlock()
		vrt.Assert(okP, "every publisher decorator acts exactly once on an outgoing message, in registration order, however often RunHandlers was called")
		vrt.Assert(okS, "every subscriber decorator acts exactly once on an incoming message, in registration order")
		vrt.Assert(len(pub.calls) == k+1, "the message reaches the real publisher once")
		mu.Lock()
		vrt.Assert(bRuns == k, "a handler added later runs its own handler-level middlewares, and only it does")
		mu.Unlock()
	}
}

// HarnessC09ReAdd: a handler is replaced on a running router (Stop, Stopped(), AddHandler under the same name, its
// own middleware, RunHandlers): the replacement runs the router-level middlewares plus its own - not those the
// stopped handler had registered for itself.
func HarnessC09ReAdd() {
	r, _ := NewRouter(RouterConfig{}, watermill.NopLogger{})
	r.isRunning = true
	tr := &c09Trace{}
	ctx, cancel := context.WithCancel(context.Background())
	defer cancel()
	sub1, sub2 := &countingSubscriber{}, &countingSubscriber{}
	hf := func(m *Message) error { tr.ev = append(tr.ev, 0); return nil }
	r.AddMiddleware(c09Rec(tr, 0)) // router level
	h1 := r.AddNoPublisherHandler("h", "in1", sub1, hf)
	h1.AddMiddleware(c09Rec(tr, 1)) // the first handler's own
	vrt.Assert(r.RunHandlers(ctx) == nil, "first handler started")
	m1 := NewMessage("m1", nil)
	sub1.chans[0] <- m1
	<-m1.Acked()
	vrt.Assert(len(tr.ev) == 5 && tr.ev[0] == 1 && tr.ev[1] == 2 && tr.ev[2] == 0 && tr.ev[3] == -2 && tr.ev[4] == -1, "the first handler runs the router-level middleware and its own, earliest outermost")
	h1.Stop()
	<-h1.Stopped()
	tr.ev = nil
	h2 := r.AddNoPublisherHandler("h", "in2", sub2, hf)
	if vrt.Bool("replacement.has.a.middleware.of.its.own") {
		h2.AddMiddleware(c09Rec(tr, 2))
	}
	vrt.Assert(r.RunHandlers(ctx) == nil, "replacement started")
	<-h2.Started()
	m2 := NewMessage("m2", nil)
	sub2.chans[0] <- m2
	<-m2.Acked()
	for _, e := range tr.ev {
		vrt.Assert(e != 2 && e != -2, "each handler runs exactly the router-level middlewares plus its own, and never another handler's (here: those of the handler it replaced)")
	}
	vrt.Assert(len(tr.ev) >= 3 && tr.ev[0] == 1 && tr.ev[len(tr.ev)-1] == -1, "the router-level middleware still wraps the replacement")
	vrt.Observe("events", len(tr.ev))
}
