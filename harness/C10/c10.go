//verif:target message/zz_verif_c10.go

package message

import (
	"context"

	"github.com/ThreeDotsLabs/watermill"
	"github.com/ThreeDotsLabs/watermill/zzverif/vrt"
)

// HarnessC10RunHandlers: RunHandlers starts each newly added handler exactly once however often (and
// from however many goroutines) it is called; Started/Stop/Stopped are usable as soon as Started is closed.
func HarnessC10RunHandlers() {
	r, _ := NewRouter(RouterConfig{}, watermill.NopLogger{})
	r.isRunning = true
	sub := &countingSubscriber{}
	h := r.AddNoPublisherHandler("h", "t", sub, func(m *Message) error { return nil })
	ctx, cancel := context.WithCancel(context.Background())
	defer cancel()
	done := make(chan struct{}, 2)
	for i := 0; i < 2; i++ {
		go func() {
			vrt.MustFinish()
			vrt.Assert(r.RunHandlers(ctx) == nil, "RunHandlers succeeds")
			done <- struct{}{}
		}()
	}
	// a user waiting for Started() and stopping the handler immediately
	<-h.Started()
	vrt.Assert(h.Stopped() != nil, "Stopped() is usable once Started() is closed")
	h.Stop()
	<-done
	<-done
	vrt.Assert(r.RunHandlers(ctx) == nil, "a further RunHandlers is harmless")
	vrt.Assert(sub.subscribes == 1, "the handler is subscribed exactly once however often RunHandlers is called")
	<-h.Stopped()
}

// HarnessC10Run: Running() is closed only after the registered handler holds its subscription; a message
// published right after Running() is handled; when the last handler ends (Stop) or the Run context is
// cancelled the router closes itself and Run returns nil; a second Run returns an error.
func HarnessC10Run() {
	r, _ := NewRouter(RouterConfig{}, watermill.NopLogger{})
	sub := &countingSubscriber{}
	handled := 0
	h := r.AddNoPublisherHandler("A", "ta", sub, func(m *Message) error { handled++; return nil })
	runDone := make(chan error, 1)
	cancelRun := vrt.Bool("end.by.cancel")
	ctx, cancel := context.WithCancel(context.Background())
	defer cancel()
	go func() {
		vrt.MustFinish()
		runDone <- r.Run(ctx)
	}()
	<-r.Running()
	vrt.Assert(sub.subscribes == 1, "Running() is closed only after every registered handler holds its subscription")
	m := NewMessage("m", nil)
	sub.chans[0] <- m
	<-m.Acked()
	vrt.Assert(handled == 1, "a message published right after Running() is handled")
	if cancelRun {
		cancel()
	} else {
		h.Stop()
	}
	err := <-runDone
	vrt.Assert(err == nil, "when the last handler ends or the Run context is cancelled the router closes itself and Run returns nil")
	vrt.Assert(r.Run(context.Background()) != nil, "a second Run returns an error")
	vrt.Observe("handled", handled)
}

// HarnessC10PluginHandler: the router has no handler when Run is called; a RouterPlugin registers the only one.
// The same life cycle must hold: Running() after the subscription, and when that handler ends (Stop) or the Run
// context is cancelled the router closes itself and Run returns nil.
func HarnessC10PluginHandler() {
	r, _ := NewRouter(RouterConfig{}, watermill.NopLogger{})
	sub := &countingSubscriber{}
	handled := 0
	var h *Handler
	r.AddPlugin(func(r *Router) error {
		h = r.AddNoPublisherHandler("A", "ta", sub, func(m *Message) error { handled++; return nil })
		return nil
	})
	runDone := make(chan error, 1)
	cancelRun := vrt.Bool("end.by.cancel")
	ctx, cancel := context.WithCancel(context.Background())
	defer cancel()
	go func() {
		vrt.MustFinish()
		runDone <- r.Run(ctx)
	}()
	<-r.Running()
	vrt.Assert(sub.subscribes == 1, "Running() is closed only after every registered handler holds its subscription")
	m := NewMessage("m", nil)
	sub.chans[0] <- m
	<-m.Acked()
	if cancelRun {
		cancel()
	} else {
		h.Stop()
	}
	err := <-runDone
	vrt.Assert(err == nil, "when the last handler ends or the Run context is cancelled the router closes itself and Run returns nil")
	vrt.Assert(r.IsClosed(), "the router closed itself")
	vrt.Observe("handled", handled)
}

type c10FlakySubscriber struct {
	countingSubscriber
	failed bool
}

func (s *c10FlakySubscriber) Subscribe(ctx context.Context, topic string) (<-chan *Message, error) {
	if !s.failed {
		s.failed = true
		return nil, errScripted // a transient fault
	}
	return s.countingSubscriber.Subscribe(ctx, topic)
}

// HarnessC10SubscribeFailsOnce: the handler's Subscribe fails the first time; RunHandlers reports it and is called
// again: the handler is then started exactly once and the whole life cycle (message, Stop, Stopped, router Close)
// is the ordinary one.
func HarnessC10SubscribeFailsOnce() {
	r, _ := NewRouter(RouterConfig{}, watermill.NopLogger{})
	r.isRunning = true
	sub := &c10FlakySubscriber{}
	handled := 0
	subName := ""
	h := r.AddNoPublisherHandler("A", "ta", sub, func(m *Message) error {
		handled++
		subName = SubscriberNameFromCtx(m.Context())
		return nil
	})
	ctx, cancel := context.WithCancel(context.Background())
	defer cancel()
	vrt.Assert(r.RunHandlers(ctx) != nil, "RunHandlers reports the Subscribe error")
	vrt.Assert(r.RunHandlers(ctx) == nil, "the retried RunHandlers starts the handler")
	<-h.Started()
	vrt.Assert(sub.subscribes == 1, "the handler holds exactly one subscription")
	m := NewMessage("m", nil)
	sub.chans[0] <- m
	<-m.Acked()
	h.Stop()
	<-h.Stopped()
	vrt.Assert(handled == 1, "handled once")
	vrt.Assert(subName == "message.c10FlakySubscriber", "the context still names the handler's own subscriber type after the retry")
	_ = r.Close() // returns (nil, or the timeout error when the CloseTimeout timer wins against the waiter goroutine)
	vrt.Assert(r.IsClosed(), "closed")
}

// HarnessC10StopOne: Stop ends that handler only; a handler with a different publisher keeps processing.
func HarnessC10StopOne() {
	r, _ := NewRouter(RouterConfig{}, watermill.NopLogger{})
	r.isRunning = true
	subA, subB := &countingSubscriber{}, &countingSubscriber{}
	handledA, handledB := 0, 0
	hA := r.AddHandler("A", "ta", subA, "out", &scriptedPublisher{}, func(m *Message) ([]*Message, error) { handledA++; return nil, nil })
	r.AddHandler("B", "tb", subB, "out", &scriptedPublisher{}, func(m *Message) ([]*Message, error) { handledB++; return nil, nil })
	ctx, cancel := context.WithCancel(context.Background())
	defer cancel()
	vrt.Assert(r.RunHandlers(ctx) == nil, "handlers started")
	vrt.Assert(subA.subscribes == 1 && subB.subscribes == 1, "each handler subscribed once")
	<-hA.Started()
	hA.Stop()
	<-hA.Stopped()
	mB := NewMessage("b", nil)
	subB.chans[0] <- mB
	<-mB.Acked()
	vrt.Assert(handledB == 1 && handledA == 0, "Stop ends that handler only; the other keeps processing")
	vrt.Observe("handledB", handledB)
}

// HarnessC10SecondRun: a second Run that arrives while the first one is still starting up (its handler's
// Subscribe is in progress) returns an error and disturbs nothing.
func HarnessC10SecondRun() {
	r, _ := NewRouter(RouterConfig{}, watermill.NopLogger{})
	sub := &countingSubscriber{entered: make(chan struct{}), gate: make(chan struct{})}
	r.AddNoPublisherHandler("A", "ta", sub, func(m *Message) error { return nil })
	ctx, cancel := context.WithCancel(context.Background())
	runDone := make(chan error, 1)
	go func() {
		vrt.MustFinish()
		runDone <- r.Run(ctx)
	}()
	<-sub.entered // the first Run is in its start-up: it has registered itself as running
	second := make(chan error, 1)
	go func() {
		vrt.MustFinish()
		second <- r.Run(context.Background())
	}()
	close(sub.gate)
	err2 := <-second
	vrt.Assert(err2 != nil, "a second Run returns an error")
	<-r.Running()
	cancel()
	vrt.Assert(<-runDone == nil, "the first Run is undisturbed and returns nil")
	vrt.Assert(sub.subscribes == 1, "the handler is subscribed once")
}

// HarnessC10LateRunHandlers: RunHandlers is called once more (nothing new to start) while the last handler is being
// stopped and the router closes itself: the call returns, Run returns nil.
func HarnessC10LateRunHandlers() {
	r, _ := NewRouter(RouterConfig{}, watermill.NopLogger{})
	sub := &countingSubscriber{}
	h := r.AddNoPublisherHandler("A", "ta", sub, func(m *Message) error { return nil })
	runDone := make(chan error, 1)
	ctx, cancel := context.WithCancel(context.Background())
	defer cancel()
	go func() {
		vrt.MustFinish()
		runDone <- r.Run(ctx)
	}()
	<-r.Running()
	rhDone := make(chan struct{})
	go func() {
		vrt.MustFinish()
		_ = r.RunHandlers(ctx) // nil, or an error saying that the router is closing: it must return
		close(rhDone)
	}()
	h.Stop()
	err := <-runDone
	vrt.Assert(err == nil, "when the last handler ends the router closes itself and Run returns nil")
	<-rhDone
	vrt.Assert(sub.subscribes == 1, "RunHandlers starts each handler exactly once however often it is called")
	vrt.Observe("closed", r.IsClosed())
}
