//verif:target pubsub/gochannel/zz_verif_c11.go

package gochannel

import (
	"context"

	"github.com/ThreeDotsLabs/watermill"
	"github.com/ThreeDotsLabs/watermill/message"
	"github.com/ThreeDotsLabs/watermill/zzverif/vrt"
)

// c11Replay: persistent Pub/Sub; nMsgs messages are published by one publisher concurrently with nSubs
// Subscribe calls on the same topic; consumers always Ack. Every subscription must end up with every
// successfully published message exactly once.
func c11Replay(nMsgs, nSubs int, buffer int64, preSub bool) {
	g := NewGoChannel(Config{Persistent: true, OutputChannelBuffer: buffer}, watermill.NopLogger{})
	counts := make([]map[string]int, nSubs)
	consume := func(i int, ch <-chan *message.Message) {
		vrt.MayBlock()
		for m := range ch {
			counts[i][m.UUID]++
			vrt.Assert(counts[i][m.UUID] == 1, "a subscription that always acks never receives a message twice")
			m.Ack()
		}
	}
	start := 0
	if preSub {
		counts[0] = map[string]int{}
		ch, err := g.Subscribe(context.Background(), "t")
		vrt.Assert(err == nil, "subscribe")
		go consume(0, ch)
		start = 1
	}
	for i := start; i < nSubs; i++ {
		i := i
		counts[i] = map[string]int{}
		go func() {
			ch, err := g.Subscribe(context.Background(), "t")
			vrt.Assert(err == nil, "subscribe")
			consume(i, ch)
		}()
	}
	batch := make([]*message.Message, 1) // the publisher re-uses its argument slice from call to call
	for k := 0; k < nMsgs; k++ {
		m := newMsg(k)
		batch[0] = m
		vrt.Assert(g.Publish("t", batch...) == nil, "publish succeeds")
		m.UUID = "reused-by-publisher" // the persisted history must not depend on what the publisher does with its object afterwards
	}
	vrt.AtQuiescence(func() {
		for i := 0; i < nSubs; i++ {
			for k := 0; k < nMsgs; k++ {
				vrt.Assert(counts[i]["u"+string(rune('0'+k))] == 1, "every subscription receives every published message exactly once (before, during or after Subscribe)")
			}
		}
	})
}

func HarnessC11OneSubOneMsg()  { c11Replay(1, 1, 0, false) }
func HarnessC11OneSubTwoMsgs() { c11Replay(2, 1, 0, false) }
func HarnessC11TwoSubsOneMsg() { c11Replay(1, 2, 0, false) }
func HarnessC11Buffered()      { c11Replay(2, 1, 1, false) }
func HarnessC11PreSub()        { c11Replay(1, 2, 0, true) }
func HarnessC11TwoSubsTwoMsgs() { c11Replay(2, 2, 0, false) }

// HarnessC11SameUUID: two different messages that carry the same (here: empty) UUID - the UUID is a debugging
// aid, nothing in the Pub/Sub may key on it: a later subscription gets both.
func HarnessC11SameUUID() {
	g := NewGoChannel(Config{Persistent: true}, watermill.NopLogger{})
	uuid := vrt.PickStr("uuid", "", "same")
	vrt.Assert(g.Publish("t", message.NewMessage(uuid, message.Payload("first"))) == nil, "publish")
	vrt.Assert(g.Publish("t", message.NewMessage(uuid, message.Payload("second"))) == nil, "publish")
	ch, err := g.Subscribe(context.Background(), "t")
	vrt.Assert(err == nil, "subscribe")
	counts := map[string]int{}
	go func() {
		vrt.MayBlock()
		for m := range ch {
			counts[string(m.Payload)]++
			m.Ack()
		}
	}()
	vrt.AtQuiescence(func() {
		vrt.Assert(counts["first"] == 1 && counts["second"] == 1, "every subscription receives every successfully published message exactly once")
	})
}

// HarnessC11SubscribeTwiceThenConsume: a caller opens two subscriptions on a topic with history before it starts
// consuming either (blocking mode or not): both Subscribe calls return, and both subscriptions get the history.
func HarnessC11SubscribeTwiceThenConsume() {
	g := NewGoChannel(Config{Persistent: true, BlockPublishUntilSubscriberAck: vrt.Bool("blocking")}, watermill.NopLogger{})
	vrt.Assert(g.Publish("t", newMsg(0)) == nil, "publish into the log (nobody subscribed yet)")
	ch1, err := g.Subscribe(context.Background(), "t")
	vrt.Assert(err == nil, "first subscribe")
	ch2, err := g.Subscribe(context.Background(), "t") // main must get past this call
	vrt.Assert(err == nil, "second subscribe")
	got := [2]int{}
	for i, ch := range []<-chan *message.Message{ch1, ch2} {
		i, ch := i, ch
		go func() {
			vrt.MayBlock()
			for m := range ch {
				got[i]++
				m.Ack()
			}
		}()
	}
	vrt.AtQuiescence(func() {
		vrt.Assert(got[0] == 1 && got[1] == 1, "every subscription receives every published message exactly once")
	})
}

// HarnessC11TwoPublishers: the very first Publish calls on a fresh topic come from two goroutines at once; a
// subscription made afterwards still gets both messages, once each.
func HarnessC11TwoPublishers() {
	g := NewGoChannel(Config{Persistent: true}, watermill.NopLogger{})
	done := make(chan struct{}, 2)
	for k := 0; k < 2; k++ {
		k := k
		go func() {
			vrt.Assert(g.Publish("fresh", newMsg(k)) == nil, "publish succeeds")
			done <- struct{}{}
		}()
	}
	<-done
	<-done
	ch, err := g.Subscribe(context.Background(), "fresh")
	vrt.Assert(err == nil, "subscribe")
	counts := map[string]int{}
	go func() {
		vrt.MayBlock()
		for m := range ch {
			counts[m.UUID]++
			m.Ack()
		}
	}()
	vrt.AtQuiescence(func() {
		vrt.Assert(counts["u0"] == 1 && counts["u1"] == 1, "every subscription receives every successfully published message exactly once")
	})
}

// HarnessC11BlockingBatch: Persistent + BlockPublishUntilSubscriberAck; one Publish call carries two
// messages while a Subscribe arrives at an arbitrary moment; a subscription already exists.
func HarnessC11BlockingBatch() {
	g := NewGoChannel(Config{Persistent: true, BlockPublishUntilSubscriberAck: true}, watermill.NopLogger{})
	counts := []map[string]int{{}, {}}
	consume := func(i int, ch <-chan *message.Message) {
		vrt.MayBlock()
		for m := range ch {
			counts[i][m.UUID]++
			vrt.Assert(counts[i][m.UUID] == 1, "a subscription that always acks never receives a message twice")
			m.Ack()
		}
	}
	ch0, err := g.Subscribe(context.Background(), "t")
	vrt.Assert(err == nil, "subscribe")
	go consume(0, ch0)
	go func() {
		ch, err := g.Subscribe(context.Background(), "t")
		vrt.Assert(err == nil, "subscribe")
		consume(1, ch)
	}()
	vrt.Assert(g.Publish("t", newMsg(0), newMsg(1)) == nil, "publish succeeds")
	vrt.AtQuiescence(func() {
		for i := 0; i < 2; i++ {
			vrt.Assert(counts[i]["u0"] == 1 && counts[i]["u1"] == 1, "every subscription receives every published message exactly once (before, during or after Subscribe)")
		}
	})
}

// HarnessC11Replace: persistent topic, subscriptions come and go: A subscribes, m1 is published and consumed, A is
// cancelled and seen closed, C subscribes, m2 is published: C receives the replay (m1) and m2, each once.
func HarnessC11Replace() {
	g := NewGoChannel(Config{Persistent: true}, watermill.NopLogger{})
	ctxA, cancelA := context.WithCancel(context.Background())
	chA, err := g.Subscribe(ctxA, "t")
	vrt.Assert(err == nil, "subscribe A")
	m1, m2 := message.NewMessage("m1", nil), message.NewMessage("m2", nil)
	vrt.Assert(g.Publish("t", m1) == nil, "first publish succeeds")
	m := <-chA
	m.Ack()
	cancelA()
	_, open := <-chA
	vrt.Assert(!open, "the cancelled subscription's channel is closed")
	chC, err := g.Subscribe(context.Background(), "t")
	vrt.Assert(err == nil, "subscribe C")
	vrt.Assert(g.Publish("t", m2) == nil, "second publish succeeds")
	// the replay and the live delivery may arrive in either order (nothing promises an order between them)
	x := <-chC
	x.Ack()
	y := <-chC // blocks for ever (reported as a deadlock) if C is not served
	y.Ack()
	vrt.Assert((x.UUID == "m1" && y.UUID == "m2") || (x.UUID == "m2" && y.UUID == "m1"), "a new subscription receives what was published before it and what is published after its Subscribe")
	vrt.AtQuiescence(func() {
		vrt.Assert(vrt.ChanLen(chC) == 0, "each exactly once")
	})
	vrt.Observe("done", true)
}
