//verif:target message/router/middleware/zz_verif_c12.go

package middleware

import (
	"fmt"
	"context"
	"errors"
	"strconv"
	"time"

	"github.com/cenkalti/backoff/v3"

	"github.com/ThreeDotsLabs/watermill/message"
	"github.com/ThreeDotsLabs/watermill/zzverif/models"
	"github.com/ThreeDotsLabs/watermill/zzverif/vrt"
)

type c12Hook struct {
	nums   []int
	delays []time.Duration
}

// c12Run drives Retry with: the handler failing its first `fails` attempts (fails > attempts
// possible = fails forever), arbitrary MaxRetries, optional hook, optional pre-cancelled context.
func c12Run(maxMaxRetries int, symbolicIntervals bool) {
	models.RandConst = true // randomisation is the subject of HarnessC12Backoff
	maxRetries := vrt.Int("maxretries", 1, maxMaxRetries)
	fails := vrt.Int("fails", 0, maxMaxRetries+2)
	withHook := vrt.Bool("hook")
	cancelled := vrt.Bool("ctx.cancelled")
	initial := 10 * time.Millisecond
	maxInt := 40 * time.Millisecond
	if symbolicIntervals {
		switch vrt.Int("initial", 0, 3) {
		case 0:
			initial = 0
		case 1:
			initial = 30 * time.Millisecond
		case 3:
			initial = 450 * time.Microsecond // intervals off the millisecond grid
		}
		if vrt.Bool("smallmax") {
			maxInt = 20 * time.Millisecond
		}
	}
	r := Retry{
		MaxRetries:          maxRetries,
		InitialInterval:     initial,
		MaxInterval:         maxInt,
		Multiplier:          2,
		RandomizationFactor: 0,
	}
	hook := &c12Hook{}
	if withHook {
		r.OnRetryHook = func(n int, d time.Duration) {
			hook.nums = append(hook.nums, n)
			hook.delays = append(hook.delays, d)
		}
	}
	msg := message.NewMessage("m", nil)
	ctx, cancel := context.WithCancel(context.Background())
	defer cancel()
	msg.SetContext(ctx)
	if cancelled {
		cancel()
	}

	calls := 0
	var stamps []time.Time
	var lastOut []*message.Message
	var lastErr error
	attemptErrs := []error{errors.New("failure a"), errors.New("failure b"), errors.New("failure c")}
	if vrt.Bool("handler.errors.are.context.errors") {
		// the handler's own backend timed out / was cancelled: that says nothing about the message's context
		attemptErrs = []error{fmt.Errorf("backend: %w", context.DeadlineExceeded), context.Canceled, fmt.Errorf("backend: %w", context.Canceled)}
	}
	h := func(m *message.Message) ([]*message.Message, error) {
		calls++
		stamps = append(stamps, time.Now())
		lastOut = []*message.Message{message.NewMessage("o"+strconv.Itoa(calls), nil)}
		if calls <= fails {
			lastErr = attemptErrs[calls%len(attemptErrs)]
			return lastOut, lastErr
		}
		return lastOut, nil
	}
	out, err := r.Middleware(h)(msg)

	vrt.Observe("calls", calls)
	vrt.Observe("err", err != nil)
	succeededAt := fails + 1 // the attempt that succeeds, if reached
	if err == nil {
		vrt.Assert(calls == succeededAt, "a nil error is returned only when an attempt succeeded, and no call follows the first success")
		vrt.Assert(sameMsgs(out, lastOut), "the first successful attempt's outputs are returned")
	} else {
		vrt.Assert(err == lastErr, "the last attempt's error is returned unchanged")
		vrt.Assert(calls <= fails, "a failure is reported only if every attempt made failed")
	}
	vrt.Assert(calls >= 1 && calls-1 <= maxRetries, "the handler is re-invoked at most MaxRetries times")
	if !cancelled {
		// nothing ends the context here: either success or all retries are used
		vrt.Assert(err == nil || calls == maxRetries+1, "without cancellation Retry gives up only after MaxRetries retries")
		vrt.Assert(err != nil || calls == succeededAt, "stops at the first success")
	} else {
		vrt.Assert(calls <= fails+1, "no call after success")
	}
	if cancelled && fails >= 1 {
		// a context that is already done may stop the retries at once (the timer may also win the select)
		vrt.Assert(err != nil || calls == succeededAt, "gives up early only with the error")
	}
	// hook: called after every failed retry with 1,2,... and the wait used before that retry
	if withHook {
		for i, n := range hook.nums {
			vrt.Assert(n == i+1, "OnRetryHook is called with 1,2,... in order")
		}
		failedRetries := calls - 1
		if err == nil {
			failedRetries = calls - 2
		}
		if failedRetries < 0 {
			failedRetries = 0
		}
		vrt.Assert(len(hook.nums) == failedRetries || (cancelled && len(hook.nums) <= failedRetries), "OnRetryHook runs once per failed retry")
	}
	// back-off: the k-th wait equals the k-th NextBackOff of a back-off configured with Retry's fields,
	// and at least that much (symbolic) time passes between attempt k and k+1
	ref := backoff.NewExponentialBackOff()
	ref.InitialInterval = r.InitialInterval
	ref.MaxInterval = r.MaxInterval
	ref.Multiplier = r.Multiplier
	ref.MaxElapsedTime = 0
	ref.RandomizationFactor = 0
	ref.Reset()
	expected := r.InitialInterval
	for k := 1; k < calls; k++ {
		want := ref.NextBackOff()
		// independent statement of the schedule for Multiplier 2, no randomisation:
		// InitialInterval x 2^(k-1) capped by MaxInterval
		vrt.Assert(want == expected, "reference back-off follows InitialInterval x Multiplier^(k-1) capped by MaxInterval")
		expected *= 2
		if expected > r.MaxInterval {
			expected = r.MaxInterval
		}
		if withHook && k-1 < len(hook.delays) {
			vrt.Assert(hook.delays[k-1] == want, "the wait before the k-th retry is the configured exponential back-off")
		}
		vrt.Assert(stamps[k].Sub(stamps[k-1]) >= want, "at least the back-off interval passes before the k-th retry")
	}
}

// HarnessC12Retry: MaxRetries 1..3, fail^i then success / fail forever, hook on/off, context live or already cancelled.
func HarnessC12Retry() { c12Run(3, true) }

// HarnessC12RetryDeep: MaxRetries 1..8.
func HarnessC12RetryDeep() { c12Run(8, true) }

// HarnessC12MaxElapsed: with MaxElapsedTime set Retry may give up early, but only with the error.
func HarnessC12MaxElapsed() {
	maxRetries := vrt.Int("maxretries", 1, 3)
	fails := vrt.Int("fails", 1, 5)
	models.RandConst = true
	r := Retry{MaxRetries: maxRetries, InitialInterval: 10 * time.Millisecond, MaxInterval: 40 * time.Millisecond,
		Multiplier: 2, MaxElapsedTime: 25 * time.Millisecond}
	msg := message.NewMessage("m", nil)
	calls := 0
	h := func(m *message.Message) ([]*message.Message, error) {
		calls++
		if calls <= fails {
			return nil, errScripted
		}
		return nil, nil
	}
	_, err := r.Middleware(h)(msg)
	vrt.Observe("calls", calls)
	vrt.Assert(err == nil || err == errScripted, "the handler's error is kept")
	vrt.Assert(err != nil || calls == fails+1, "success only if an attempt succeeded")
	vrt.Assert(calls-1 <= maxRetries, "at most MaxRetries retries")
	vrt.Assert(msg.Context().Err() == nil, "Retry leaves the message context usable")
}


// HarnessC12MaxElapsedTimed: "gives up early when MaxElapsedTime passes", against the clock: under the timed
// semantics (computation takes no time, timers fire when due) no attempt starts later than MaxElapsedTime after
// the first one, whatever the back-off interval is; without the timed semantics only the untimed claims are checked.
func HarnessC12MaxElapsedTimed() {
	models.RandConst = true
	initial := 10 * time.Millisecond
	if vrt.Bool("long.backoff") {
		initial = 2 * time.Second // the very first wait crosses the deadline
	}
	maxElapsed := 25 * time.Millisecond
	r := Retry{MaxRetries: vrt.Int("maxretries", 1, 4), InitialInterval: initial, MaxInterval: time.Minute, Multiplier: 2, MaxElapsedTime: maxElapsed}
	fails := vrt.Int("fails", 1, 5)
	msg := message.NewMessage("m", nil)
	// the message context: never cancelled / cancelled before the call / cancelled 5ms into the first back-off
	cancelAt := vrt.Int("message.context.cancelled", 0, 2)
	base := context.Background()
	if vrt.Bool("message.context.has.a.later.deadline") {
		// e.g. an outer Timeout middleware, or a Pub/Sub that puts deadlines on its messages
		var dcancel context.CancelFunc
		base, dcancel = context.WithTimeout(base, time.Second)
		defer dcancel()
	}
	mctx, mcancel := context.WithCancel(base)
	defer mcancel()
	msg.SetContext(mctx)
	switch cancelAt {
	case 1:
		mcancel()
	case 2:
		go func() {
			time.Sleep(5 * time.Millisecond)
			mcancel()
		}()
	}
	calls := 0
	t0 := time.Now()
	h := func(m *message.Message) ([]*message.Message, error) {
		calls++
		if vrt.Timed() {
			vrt.Assert(time.Since(t0) <= maxElapsed, "no attempt starts after MaxElapsedTime has passed")
			vrt.Assert(cancelAt == 0 || calls == 1, "no further attempt once the message context has ended")
		}
		if calls <= fails {
			return nil, errScripted
		}
		return nil, nil
	}
	_, err := r.Middleware(h)(msg)
	vrt.Assert(err == nil || err == errScripted, "the handler's error is kept")
	vrt.Assert(err != nil || calls == fails+1, "success only if an attempt succeeded")
	if vrt.Timed() {
		vrt.Assert(time.Since(t0) <= maxElapsed, "Retry returns when MaxElapsedTime passes at the latest")
		if initial > maxElapsed {
			vrt.Assert(calls == 1, "a back-off longer than the remaining time means no further attempt")
		}
	}
	vrt.Assert(cancelAt != 0 || msg.Context().Err() == nil, "Retry leaves the message context usable")
}

// HarnessC12Concurrent: two messages retried concurrently through the same Retry middleware instance do not
// disturb each other's back-off: every pause is still at least the configured interval for that message.
func HarnessC12Concurrent() {
	models.RandConst = true
	r := Retry{MaxRetries: 2, InitialInterval: 10 * time.Millisecond, MaxInterval: 40 * time.Millisecond, Multiplier: 2}
	type run struct {
		calls  int
		stamps []time.Time
	}
	runs := []*run{{}, {}}
	fails := []int{2, 1}
	mw := r.Middleware(func(m *message.Message) ([]*message.Message, error) {
		i := 0
		if m.UUID == "b" {
			i = 1
		}
		runs[i].calls++
		runs[i].stamps = append(runs[i].stamps, time.Now())
		if runs[i].calls <= fails[i] {
			return nil, errScripted
		}
		return nil, nil
	})
	done := make(chan struct{}, 2)
	go func() { mw(message.NewMessage("a", nil)); done <- struct{}{} }()
	go func() { mw(message.NewMessage("b", nil)); done <- struct{}{} }()
	<-done
	<-done
	for i, rn := range runs {
		vrt.Assert(rn.calls == fails[i]+1, "each message gets its own attempts")
		want := 10 * time.Millisecond
		for k := 1; k < len(rn.stamps); k++ {
			vrt.Assert(rn.stamps[k].Sub(rn.stamps[k-1]) >= want, "at least the message's own back-off interval passes before each retry")
			want *= 2
		}
	}
}
