//verif:target message/router/middleware/zz_verif_c13.go

package middleware

import (
	"context"
	"strconv"
	"sync"

	"github.com/pkg/errors"

	"github.com/ThreeDotsLabs/watermill/message"
	"github.com/ThreeDotsLabs/watermill/zzverif/vrt"
)

type c13Snapshot struct {
	keys []string
	vals []string
}

func c13Meta(prefix string, m *message.Message, n int) c13Snapshot {
	var s c13Snapshot
	poison := []string{ReasonForPoisonedKey, PoisonedTopicKey, PoisonedHandlerKey, PoisonedSubscriberKey}
	for i := 0; i < n; i++ {
		k := vrt.Str(prefix + ".k" + strconv.Itoa(i))
		// a key may be arbitrary or one of the poison keys (pre-existing poison metadata)
		if pk := vrt.Int(prefix+".poisonkey"+strconv.Itoa(i), -1, 3); pk >= 0 {
			k = poison[pk]
		}
		v := vrt.Str(prefix + ".v" + strconv.Itoa(i))
		m.Metadata.Set(k, v)
	}
	for k, v := range m.Metadata {
		s.keys = append(s.keys, k)
		s.vals = append(s.vals, v)
	}
	return s
}

func isPoisonKey(k string) bool {
	return k == ReasonForPoisonedKey || k == PoisonedTopicKey || k == PoisonedHandlerKey || k == PoisonedSubscriberKey
}

// HarnessC13Poison: the poison middleware around an arbitrary handler result.
func HarnessC13Poison() {
	errKind := vrt.Int("errkind", 0, 2) // 0 success, 1 plain error, 2 wrapped error
	nOut := vrt.Int("nout", 0, vrt.Bound("maxout", 2))
	useFilter := vrt.Bool("filter")
	filterAccepts := vrt.Bool("filter.accepts")
	pubFails := vrt.Bool("pub.fails")

	msg := message.NewMessage(vrt.Str("uuid"), message.Payload(vrt.Bytes("payload", vrt.Bound("maxpayload", 2))))
	nMeta := vrt.Int("nmeta", 0, vrt.Bound("maxmeta", 2))
	before := c13Meta("meta", msg, nMeta)
	handlerName, topic, subName := vrt.Str("ctx.handler"), vrt.Str("ctx.topic"), vrt.Str("ctx.subscriber")
	ctx := context.Background()
	// the values the Router puts into the context (keys are unexported there; reached through a router-built context in C08)
	msg.SetContext(ctx)
	_ = handlerName
	_ = topic
	_ = subName

	var hErr error
	switch errKind {
	case 1:
		hErr = errScripted
	case 2:
		hErr = errors.Wrap(errScripted, "wrapped")
	}
	var outputs []*message.Message
	for i := 0; i < nOut; i++ {
		outputs = append(outputs, message.NewMessage("o", nil))
	}
	calls := 0
	h := func(m *message.Message) ([]*message.Message, error) {
		calls++
		return outputs, hErr
	}
	pub := &recPublisher{fail: func(int) bool { return pubFails }}
	var filterSaw error
	var mw message.HandlerMiddleware
	var cerr error
	if useFilter {
		mw, cerr = PoisonQueueWithFilter(pub, "poison", func(err error) bool { filterSaw = err; return filterAccepts })
	} else {
		mw, cerr = PoisonQueue(pub, "poison")
	}
	vrt.Assert(cerr == nil && mw != nil, "a non-empty poison topic is accepted")
	out, err := mw(h)(msg)

	vrt.Observe("err", err != nil)
	vrt.Observe("pubcalls", len(pub.calls))
	vrt.Assert(calls == 1, "the handler is invoked exactly once")
	vrt.Assert(sameMsgs(out, outputs), "the handler's outputs pass through unchanged")
	accepted := hErr != nil && (!useFilter || filterAccepts)
	if useFilter && hErr != nil {
		vrt.Assert(filterSaw == hErr, "the filter sees the handler's error")
	}
	if !accepted {
		vrt.Assert(len(pub.calls) == 0, "success and filtered-out errors publish nothing")
		vrt.Assert(err == hErr, "success and filtered-out errors pass through unchanged")
		// metadata untouched
		same := len(msg.Metadata) == len(before.keys)
		for i, k := range before.keys {
			if v, ok := msg.Metadata[k]; !ok || v != before.vals[i] {
				same = false
			}
		}
		vrt.Assert(same, "the message is untouched when nothing is poisoned")
		return
	}
	vrt.Assert(len(pub.calls) == 1, "an accepted failure is published exactly once")
	c := pub.calls[0]
	vrt.Assert(c.topic == "poison", "to the poison topic")
	vrt.Assert(len(c.msgs) == 1 && c.msgs[0] == msg, "the very message that failed (same UUID and payload)")
	vrt.Assert(msg.Metadata[ReasonForPoisonedKey] == hErr.Error(), "metadata names the reason")
	vrt.Assert(msg.Metadata[PoisonedTopicKey] == message.SubscribeTopicFromCtx(msg.Context()), "metadata names the topic")
	vrt.Assert(msg.Metadata[PoisonedHandlerKey] == message.HandlerNameFromCtx(msg.Context()), "metadata names the handler")
	vrt.Assert(msg.Metadata[PoisonedSubscriberKey] == message.SubscriberNameFromCtx(msg.Context()), "metadata names the subscriber")
	for i, k := range before.keys {
		if !isPoisonKey(k) {
			v, ok := msg.Metadata[k]
			vrt.Assert(ok && v == before.vals[i], "the original metadata is kept")
		}
	}
	if pubFails {
		vrt.Assert(err != nil, "if the poison publish fails the error is still returned")
		vrt.Assert(errors.Is(err, hErr) || vrt.Contains(err.Error(), hErr.Error()), "the returned error still carries the handler's error")
	} else {
		vrt.Assert(err == nil, "only after the poison topic accepted the message is success reported")
	}
}

// HarnessC13Concurrent: two messages in flight through the same poison-wrapped handler: one fails (its
// filter decision arrives at an arbitrary moment), the other succeeds. The failed one must end in the poison topic.
func HarnessC13Concurrent() {
	pub := &recPublisher{}
	var pmu sync.Mutex
	locked := &syncPub{mu: &pmu, p: pub}
	mw, err := PoisonQueueWithFilter(locked, "poison", func(err error) bool { vrt.Yield(); return true })
	vrt.Assert(err == nil, "middleware")
	bad, good := message.NewMessage("bad", nil), message.NewMessage("good", nil)
	h := mw(func(m *message.Message) ([]*message.Message, error) {
		if m == bad {
			return nil, errScripted
		}
		return nil, nil
	})
	done := make(chan struct{}, 2)
	var errBad, errGood error
	go func() { _, errBad = h(bad); done <- struct{}{} }()
	go func() { _, errGood = h(good); done <- struct{}{} }()
	<-done
	<-done
	vrt.Assert(errGood == nil, "the successful message passes through")
	vrt.Assert(len(pub.calls) == 1 && len(pub.calls[0].msgs) == 1 && pub.calls[0].msgs[0] == bad, "the failed message is published to the poison topic exactly once, whatever else is in flight")
	vrt.Assert(errBad == nil, "and only then reported as success")
	vrt.Observe("poisoned", len(pub.calls))
}

type syncPub struct {
	mu *sync.Mutex
	p  *recPublisher
}

func (s *syncPub) Publish(topic string, msgs ...*message.Message) error {
	s.mu.Lock()
	defer s.mu.Unlock()
	return s.p.Publish(topic, msgs...)
}
func (s *syncPub) Close() error { return nil }

// HarnessC13SharedWrapper: one poison-wrapped handler function serves two handlers (registered twice, or
// used for two topics): two messages with router-built contexts of different handlers go through the same
// wrapped function one after the other; each poisoned message names its own origin.
func HarnessC13SharedWrapper() {
	pub := &recPublisher{}
	mw, err := PoisonQueue(pub, "poison")
	vrt.Assert(err == nil, "middleware")
	fails := [2]bool{vrt.Bool("first.fails"), vrt.Bool("second.fails")}
	var msgs [2]*message.Message
	h := mw(func(m *message.Message) ([]*message.Message, error) {
		if (m == msgs[0] && fails[0]) || (m == msgs[1] && fails[1]) {
			return nil, errScripted
		}
		return nil, nil
	})
	names := [2][3]string{
		{vrt.Str("a.handler"), vrt.Str("a.subscriber"), vrt.Str("a.topic")},
		{vrt.Str("b.handler"), vrt.Str("b.subscriber"), vrt.Str("b.topic")},
	}
	poisoned := 0
	for i := 0; i < 2; i++ {
		msgs[i] = message.NewMessage("m"+strconv.Itoa(i), nil)
		message.ZZAddHandlerContext(msgs[i], names[i][0], names[i][1], names[i][2], "", "")
		_, herr := h(msgs[i])
		vrt.Assert(herr == nil, "a poisoned message is reported as success, a good one passes")
		if !fails[i] {
			vrt.Assert(len(msgs[i].Metadata) == 0, "the message is untouched when nothing is poisoned")
			continue
		}
		poisoned++
		vrt.Assert(len(pub.calls) == poisoned && len(pub.calls[poisoned-1].msgs) == 1 && pub.calls[poisoned-1].msgs[0] == msgs[i], "the failed message is published to the poison topic exactly once")
		vrt.Assert(msgs[i].Metadata[PoisonedHandlerKey] == names[i][0], "metadata names the handler the message failed in")
		vrt.Assert(msgs[i].Metadata[PoisonedSubscriberKey] == names[i][1], "metadata names that handler's subscriber")
		vrt.Assert(msgs[i].Metadata[PoisonedTopicKey] == names[i][2], "metadata names the topic the message came from")
	}
	vrt.Observe("poisoned", poisoned)
}

type c13Error string

func (e c13Error) Error() string { return string(e) }

// HarnessC13FilterAndTexts: error texts that are not one tidy line (a multierror, blanks at the ends), and filters
// whose answer may differ when they are asked again (sampling, rate limiting, "poison once"): the decision for a
// message is the answer the filter gave for it; an accepted failure is in the poison topic, with the error's text
// as the reason, or still failing.
func HarnessC13FilterAndTexts() {
	var hErr error = errScripted
	switch vrt.Int("errtext", 0, 2) {
	case 1:
		hErr = c13Error("2 errors occurred:\n\t* first\n\t* second\n\n")
	case 2:
		hErr = c13Error(" padded  text ")
	}
	filterAccepts := vrt.Bool("filter.accepts")
	flips := vrt.Bool("filter.answers.differently.when.asked.again")
	pubFails := vrt.Bool("pub.fails")
	pub := &recPublisher{fail: func(int) bool { return pubFails }}
	filterCalls := 0
	mw, cerr := PoisonQueueWithFilter(pub, "poison", func(err error) bool {
		filterCalls++
		if flips && filterCalls > 1 {
			return !filterAccepts
		}
		return filterAccepts
	})
	vrt.Assert(cerr == nil, "middleware")
	msg := message.NewMessage("u", message.Payload("p"))
	_, err := mw(func(m *message.Message) ([]*message.Message, error) { return nil, hErr })(msg)
	vrt.Observe("err", err != nil)
	if !filterAccepts {
		vrt.Assert(err == hErr && len(pub.calls) == 0 && len(msg.Metadata) == 0, "filtered-out errors pass through unchanged and publish nothing")
		return
	}
	vrt.Assert(len(pub.calls) == 1 && len(pub.calls[0].msgs) == 1 && pub.calls[0].msgs[0] == msg && pub.calls[0].topic == "poison", "an accepted failure is published exactly once to the poison topic")
	vrt.Assert(msg.Metadata[ReasonForPoisonedKey] == hErr.Error(), "metadata names the reason: the error's text")
	if pubFails {
		vrt.Assert(err != nil, "if the poison publish fails the error is still returned")
	} else {
		vrt.Assert(err == nil, "only after the poison topic accepted the message is success reported")
	}
}
