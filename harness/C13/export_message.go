//verif:target message/zz_verif_c13x.go

package message

// ZZAddHandlerContext gives a message the context the Router gives it before a handler's chain runs (the real
// addHandlerContext of a handler with these names), for harnesses outside package message.
func ZZAddHandlerContext(m *Message, name, subscriberName, subscribeTopic, publisherName, publishTopic string) {
	h := &handler{name: name, subscriberName: subscriberName, subscribeTopic: subscribeTopic,
		publisherName: publisherName, publishTopic: publishTopic}
	h.addHandlerContext(m)
}
