//verif:target message/router/middleware/zz_verif_c14.go

package middleware

import (
	"bytes"
	"context"
	"strconv"
	"sync"
	"time"

	"github.com/ThreeDotsLabs/watermill/message"
	"github.com/ThreeDotsLabs/watermill/zzverif/models"
	"github.com/ThreeDotsLabs/watermill/zzverif/vrt"
)

// c14Repo: the real map repository from its constructor; the clean-up loop the constructor starts stays idle (its
// modelled ticker delivers nothing), HarnessC14Window drives a second loop with its own ticks.
func c14Repo(window time.Duration) *mapExpiringKeyRepository {
	models.TickerTicks = 0
	kr, err := NewMapExpiringKeyRepository(window)
	vrt.Assert(err == nil, "repository created")
	return kr.(*mapExpiringKeyRepository)
}

// keys: two short ones and two long ones that differ only after their 40th byte
const (
	c14LongA = "order-7f3c2a9e-5b1d-4e8a-9c60-2f4b7d1e8a35/attempt-A"
	c14LongB = "order-7f3c2a9e-5b1d-4e8a-9c60-2f4b7d1e8a35/attempt-B"
)

func c14Msg(i int) (*message.Message, string) {
	key := vrt.PickStr("key"+strconv.Itoa(i), "a", "b")
	if vrt.Bound("longkeys", 1) == 1 && vrt.Bool("key"+strconv.Itoa(i)+".empty") {
		key = "" // a field that is present with an empty value is a key like any other
	} else if vrt.Bound("longkeys", 1) == 1 && vrt.Bool("key"+strconv.Itoa(i)+".long") {
		key = vrt.PickStr("key"+strconv.Itoa(i)+".l", c14LongA, c14LongB)
	}
	m := message.NewMessage("m"+strconv.Itoa(i), nil)
	m.Metadata.Set("key", key)
	return m, key
}

// c14Once: n goroutines present messages with arbitrary keys from {a,b} concurrently; per key exactly one
// reaches the handler (middleware) or the inner publisher (decorator); the others are dropped as successes.
func c14Once(n int, viaPublisher bool) {
	kr := c14Repo(time.Minute)
	d := &Deduplicator{KeyFactory: NewMessageHasherFromMetadataField("key"), Repository: kr, Timeout: time.Minute}
	var mu sync.Mutex
	passed := map[string]int{}
	inner := &recPublisher{}
	h := d.Middleware(func(m *message.Message) ([]*message.Message, error) {
		mu.Lock()
		passed[m.Metadata.Get("key")]++
		mu.Unlock()
		return []*message.Message{m}, nil
	})
	pub, err := d.PublisherDecorator()(&lockedPublisher{p: inner})
	vrt.Assert(err == nil, "decorated")
	keys := make([]string, n)
	msgs := make([]*message.Message, n)
	outs := make([]int, n)
	done := make(chan struct{}, n)
	for i := 0; i < n; i++ {
		i := i
		msgs[i], keys[i] = c14Msg(i)
		go func() {
			if viaPublisher {
				vrt.Assert(pub.Publish("t", msgs[i]) == nil, "publish succeeds")
			} else {
				out, err := h(msgs[i])
				vrt.Assert(err == nil, "duplicates are dropped as successes")
				outs[i] = len(out)
			}
			done <- struct{}{}
		}()
	}
	for i := 0; i < n; i++ {
		<-done
	}
	for _, k := range []string{"a", "b", "", c14LongA, c14LongB} {
		present := 0
		for i := 0; i < n; i++ {
			if keys[i] == k {
				present++
			}
		}
		got := 0
		if viaPublisher {
			for _, c := range inner.calls {
				for _, m := range c.msgs {
					if m.Metadata.Get("key") == k {
						got++
					}
				}
			}
		} else {
			got = passed[k]
		}
		if present > 0 {
			vrt.Assert(got == 1, "among messages with the same key exactly one gets through, however concurrently they arrive")
		} else {
			vrt.Assert(got == 0, "nothing is invented")
		}
	}
	if viaPublisher {
		acked := 0
		for i := 0; i < n; i++ {
			if settlementOf(msgs[i]) == 1 {
				acked++
			}
		}
		total := 0
		for _, c := range inner.calls {
			total += len(c.msgs)
		}
		vrt.Assert(acked == n-total, "dropped duplicates are acked, forwarded messages are left to the inner publisher")
	}
	vrt.Observe("passed.a", passed["a"])
}

type lockedPublisher struct {
	mu sync.Mutex
	p  *recPublisher
}

func (l *lockedPublisher) Publish(topic string, msgs ...*message.Message) error {
	l.mu.Lock()
	defer l.mu.Unlock()
	return l.p.Publish(topic, msgs...)
}
func (l *lockedPublisher) Close() error { return nil }

// HarnessC14Defaults: a Deduplicator used with its defaults (nil *Deduplicator, or a zero value whose fields
// are filled in) remembers keys across messages like an explicitly configured one: of two (three) messages
// with equal payloads presented one after the other, or two concurrently, exactly one gets through.
func HarnessC14Defaults() {
	models.TickerTicks = 0 // the clean-up loop is started and stays idle (HarnessC14Window drives it)
	var d *Deduplicator
	if vrt.Bool("zero.value") {
		d = &Deduplicator{}
	}
	viaPublisher := vrt.Bool("via.publisher")
	concurrent := vrt.Bool("concurrent")
	var mu sync.Mutex
	passed := 0
	var h message.HandlerFunc
	var pub message.Publisher
	inner := &recPublisher{}
	if viaPublisher {
		p, err := d.PublisherDecorator()(&lockedPublisher{p: inner})
		vrt.Assert(err == nil, "decorated")
		pub = p
	} else {
		h = d.Middleware(func(m *message.Message) ([]*message.Message, error) {
			mu.Lock()
			passed++
			mu.Unlock()
			return nil, nil
		})
	}
	// a second wrapper built from the same Deduplicator shares its memory of keys (zero value only: a nil one has
	// nothing to share)
	h2 := h
	if d != nil && !viaPublisher && vrt.Bool("second.middleware.from.the.same.deduplicator") {
		h2 = d.Middleware(func(m *message.Message) ([]*message.Message, error) {
			mu.Lock()
			passed++
			mu.Unlock()
			return nil, nil
		})
	}
	present := func(i int) {
		m := message.NewMessage("m"+strconv.Itoa(i), message.Payload("same payload"))
		if viaPublisher {
			vrt.Assert(pub.Publish("t", m) == nil, "publish succeeds")
		} else if i == 1 {
			_, err := h2(m)
			vrt.Assert(err == nil, "duplicates are dropped as successes")
		} else {
			_, err := h(m)
			vrt.Assert(err == nil, "duplicates are dropped as successes")
		}
	}
	if concurrent {
		done := make(chan struct{}, 2)
		for i := 0; i < 2; i++ {
			i := i
			go func() { present(i); done <- struct{}{} }()
		}
		<-done
		<-done
	} else {
		for i := 0; i < 3; i++ {
			present(i)
		}
	}
	got := passed
	if viaPublisher {
		got = 0
		for _, c := range inner.calls {
			got += len(c.msgs)
		}
	}
	vrt.Assert(got == 1, "among messages with the same key exactly one gets through, also with the default repository and hasher")
}

func HarnessC14Once2()    { c14Once(2, false) }
func HarnessC14Once3()    { c14Once(3, false) }
func HarnessC14OncePub2() { c14Once(2, true) }

// HarnessC14Window: a key is remembered for at least the window and accepted again after it expired and
// the clean-up ran; the real cleanOutLoop runs against a ticker whose ticks carry the current (symbolic) time.
func HarnessC14Window() {
	window := 10 * time.Second
	kr := c14Repo(window)
	tick := make(chan time.Time)
	ctx, cancel := context.WithCancel(context.Background())
	go kr.cleanOutLoop(ctx, &time.Ticker{C: tick})
	// the first arrival comes an arbitrary time after the repository was made, possibly after a clean-up tick
	// and an arbitrary time after that tick
	vrt.Advance()
	if vrt.Bool("tick.before.first.arrival") {
		tb := time.Now()
		tick <- tb
		tick <- tb
		vrt.Advance()
	}
	t1 := time.Now()
	dup, err := kr.IsDuplicate(context.Background(), "k")
	vrt.Assert(err == nil && !dup, "first arrival is accepted")
	lastTick := t1
	ticked := false
	if vrt.Bool("another.key.in.between") {
		// other keys keep arriving: that must not keep an expired key alive
		vrt.Advance()
		o, err := kr.IsDuplicate(context.Background(), "another")
		vrt.Assert(err == nil && !o, "a different key is accepted")
	}
	if vrt.Bool("duplicate.in.between") {
		// a duplicate arriving in the meantime is dropped and must not extend the retention of the key
		vrt.Advance()
		tm := time.Now()
		dupm, err := kr.IsDuplicate(context.Background(), "k")
		vrt.Assert(err == nil, "no error")
		if tm.Sub(t1) < window {
			vrt.Assert(dupm, "a key is remembered for at least the configured window")
		}
	}
	for i := 0; i < 2; i++ {
		vrt.Advance()
		if vrt.Bool("tick" + strconv.Itoa(i)) {
			lastTick = time.Now()
			tick <- lastTick
			tick <- lastTick // the loop takes the second tick only after the first clean-up has finished
			ticked = true
		}
	}
	vrt.Advance()
	t2 := time.Now()
	dup2, err := kr.IsDuplicate(context.Background(), "k")
	vrt.Assert(err == nil, "no error")
	vrt.Observe("dup2", dup2)
	if t2.Sub(t1) < window {
		vrt.Assert(dup2, "a key is remembered for at least the configured window")
	}
	if ticked && lastTick.Sub(t1) > window {
		vrt.Assert(!dup2, "a key is accepted again after it expired (and the clean-up ran)")
	}
	other, err := kr.IsDuplicate(context.Background(), "other")
	vrt.Assert(err == nil && !other, "messages with different keys never suppress each other")
	cancel()
}

// c14Payload: a payload of the given length with arbitrary bytes.
func c14Payload(prefix string, n int) []byte {
	b := make([]byte, n)
	for i := range b {
		b[i] = vrt.Byte(prefix + "." + strconv.Itoa(i))
	}
	return b
}

// HarnessC14Hashers: the built-in hashers give equal keys for payloads that are equal up to the read
// limit (read limits below 64 are raised to 64), and SHA-256 gives different keys for payloads that
// differ within it. Payload sizes straddle the 64-byte boundary.
func HarnessC14Hashers() {
	useSHA := vrt.Bool("sha256")
	limits := []int64{1, 64, 65, 1 << 62}
	limit := limits[vrt.Int("limit", 0, 3)]
	eff := limit
	if eff < 64 {
		eff = 64
	}
	var hasher MessageHasher
	if useSHA {
		hasher = NewMessageHasherSHA256(limit)
	} else {
		hasher = NewMessageHasherAdler32(limit)
	}
	n1 := vrt.Int("len1", 63, 66)
	n2 := vrt.Int("len2", 63, 66)
	p1, p2 := c14Payload("p1", n1), c14Payload("p2", n2)
	k1, err1 := hasher(message.NewMessage("a", p1))
	k2, err2 := hasher(message.NewMessage("b", p2))
	vrt.Assert(err1 == nil && err2 == nil, "hashing succeeds")
	// are the payloads equal up to the effective read limit?
	r1, r2 := n1, n2
	if int64(r1) > eff {
		r1 = int(eff)
	}
	if int64(r2) > eff {
		r2 = int(eff)
	}
	samePrefix := bytes.Equal(p1[:r1], p2[:r2]) // one term, no per-byte path split
	vrt.Observe("same.prefix", samePrefix)
	if samePrefix {
		vrt.Assert(k1 == k2, "payloads equal up to the read limit get equal keys")
	} else if useSHA {
		vrt.Assert(k1 != k2, "SHA-256: payloads that differ within the read limit get different keys")
	}
}
