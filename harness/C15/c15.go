//verif:target components/cqrs/zz_verif_c15.go

package cqrs

import (
	"context"
	"errors"
	"strconv"

	"github.com/ThreeDotsLabs/watermill"
	"github.com/ThreeDotsLabs/watermill/message"
	"github.com/ThreeDotsLabs/watermill/zzverif/vrt"
)

var errScripted = errors.New("scripted failure")

type c15A struct {
	N int
	S string
}
type c15B struct {
	Flag bool
	S    string
}
type c15Unknown struct{ X int }

type c15Pub struct {
	topics []string
	msgs   []*message.Message
	fail   bool
}

func (p *c15Pub) Publish(topic string, msgs ...*message.Message) error {
	for _, m := range msgs {
		p.topics = append(p.topics, topic)
		p.msgs = append(p.msgs, m)
	}
	if p.fail {
		return errScripted
	}
	return nil
}
func (p *c15Pub) Close() error { return nil }

type c15Log struct {
	ptrsA   []*c15A
	who     []int
	gotA    []c15A
	gotB    []c15B
	origOK  []bool
	current *message.Message
}

func c15Marshaler() JSONMarshaler {
	if vrt.Bool("customname") {
		return JSONMarshaler{GenerateName: NamedStruct(func(v any) string { return "custom." + StructName(v) })}
	}
	return JSONMarshaler{}
}

// c15Incoming sends a value of arbitrary type {A, B, unknown} with arbitrary fields through the bus
// function under test and returns the message the bus published (or a malformed one).
func c15Incoming(m JSONMarshaler, send func(v any) error, pub *c15Pub) (kind int, a c15A, b c15B, msg *message.Message) {
	kind = vrt.Int("msg.kind", 0, 3) // 0 A, 1 B, 2 unknown type, 3 name of A but malformed payload
	a = c15A{N: vrt.Int("a.n", -1000, 1000), S: vrt.Str("a.s")}
	b = c15B{Flag: vrt.Bool("b.flag"), S: vrt.Str("b.s")}
	var v any
	switch kind {
	case 0, 3:
		v = &a
	case 1:
		v = &b
	case 2:
		v = &c15Unknown{X: 1}
	}
	err := send(v)
	vrt.Assert(err == nil, "sending through the bus succeeds")
	vrt.Assert(len(pub.msgs) == 1, "the bus publishes exactly once")
	msg = pub.msgs[0]
	vrt.Assert(pub.topics[0] == "topic."+m.Name(v), "on the topic the configuration generates for the type name")
	vrt.Assert(msg.Metadata.Get("name") == m.Name(v), "carrying the type name")
	if kind == 3 {
		if vrt.Bool("malformed.after.a.valid.value") {
			// a payload that merely starts with a well-formed value ('{...} garbage', two documents glued together)
			tail := vrt.Bytes("trailing", 2)
			vrt.Assume(len(tail) > 0 && tail[0] > ' ')
			msg = message.NewMessage("bad", append(append([]byte{}, msg.Payload...), tail...))
		} else {
			msg = message.NewMessage("bad", message.Payload(vrt.Bytes("garbage", 2)))
		}
		msg.Metadata.Set("name", m.Name(&a))
	}
	if vrt.Bool("context.carries.an.earlier.original") {
		// the message was published by a handler with that handler's context, and the Pub/Sub kept the context
		msg.SetContext(CtxWithOriginalMessage(msg.Context(), message.NewMessage("earlier", nil)))
	}
	return
}

type c15CmdHandlerA struct {
	log  *c15Log
	id   int
	fail bool
}

func (h c15CmdHandlerA) HandlerName() string { return "hA" + strconv.Itoa(h.id) }
func (h c15CmdHandlerA) NewCommand() any    { return &c15A{} }
func (h c15CmdHandlerA) NewEvent() any      { return &c15A{} }
func (h c15CmdHandlerA) Handle(ctx context.Context, v any) error {
	h.log.who = append(h.log.who, h.id)
	h.log.gotA = append(h.log.gotA, *v.(*c15A))
	h.log.ptrsA = append(h.log.ptrsA, v.(*c15A))
	h.log.origOK = append(h.log.origOK, OriginalMessageFromCtx(ctx) == h.log.current)
	// a handler owns the value it is given: it may normalise it in place
	v.(*c15A).N++
	v.(*c15A).S = "edited by handler " + strconv.Itoa(h.id)
	if h.fail {
		return errScripted
	}
	return nil
}

type c15HandlerB struct {
	log  *c15Log
	id   int
	fail bool
}

func (h c15HandlerB) HandlerName() string { return "hB" + strconv.Itoa(h.id) }
func (h c15HandlerB) NewEvent() any      { return &c15B{} }
func (h c15HandlerB) Handle(ctx context.Context, v any) error {
	h.log.who = append(h.log.who, h.id)
	h.log.gotB = append(h.log.gotB, *v.(*c15B))
	h.log.origOK = append(h.log.origOK, OriginalMessageFromCtx(ctx) == h.log.current)
	*v.(*c15B) = c15B{}
	if h.fail {
		return errScripted
	}
	return nil
}

// HarnessC15Command: CommandBus.Send -> CommandProcessor handler func.
func HarnessC15Command() {
	m := c15Marshaler()
	pub := &c15Pub{}
	bus, err := NewCommandBusWithConfig(pub, CommandBusConfig{
		GeneratePublishTopic: func(p CommandBusGeneratePublishTopicParams) (string, error) { return "topic." + p.CommandName, nil },
		Marshaler:            m,
	})
	vrt.Assert(err == nil, "bus created")
	kind, a, _, msg := c15Incoming(m, func(v any) error { return bus.Send(context.Background(), v) }, pub)
	log := &c15Log{current: msg}
	ackErrors := vrt.Bool("AckCommandHandlingErrors")
	hfail := vrt.Bool("handler.fails")
	p := CommandProcessor{config: CommandProcessorConfig{Marshaler: m, AckCommandHandlingErrors: ackErrors, Logger: watermill.NopLogger{}}}
	if vrt.Bool("OnHandle.set") {
		// the hook as its documentation shows it: the handler is called with the message's context
		p.config.OnHandle = func(params CommandProcessorOnHandleParams) error {
			return params.Handler.Handle(params.Message.Context(), params.Command)
		}
	}
	var h CommandHandler = c15CmdHandlerA{log: log, id: 1, fail: hfail}
	if vrt.Bool("generic") {
		h = NewCommandHandler("hA1", func(ctx context.Context, c *c15A) error {
			return c15CmdHandlerA{log: log, id: 1, fail: hfail}.Handle(ctx, c)
		})
	}
	fn, err := p.routerHandlerFunc(h, watermill.NopLogger{})
	vrt.Assert(err == nil, "handler func built")
	herr := fn(msg)
	vrt.Observe("invoked", len(log.who))
	vrt.Observe("err", herr != nil)
	switch kind {
	case 0:
		vrt.Assert(len(log.who) == 1, "the handler is invoked for a message of its type")
		vrt.Assert(log.gotA[0] == a, "with a value equal to the one sent")
		// a second command of the same type through the same handler func: each invocation gets its own value
		a2 := c15A{N: vrt.Int("a2.n", -1000, 1000), S: vrt.Str("a2.s")}
		vrt.Assert(bus.Send(context.Background(), &a2) == nil && len(pub.msgs) == 2, "second command sent")
		log.current = pub.msgs[1]
		_ = fn(pub.msgs[1])
		vrt.Assert(len(log.gotA) == 2 && log.gotA[1] == a2, "the second command arrives with its own value")
		vrt.Assert(len(log.ptrsA) == 2 && *log.ptrsA[0] == (c15A{N: a.N + 1, S: "edited by handler " + strconv.Itoa(log.who[0])}), "the value handed to the first invocation (as that handler left it) is not overwritten by a later command")
		vrt.Assert(log.origOK[0], "the handler's context exposes the original message")
		vrt.Assert((herr != nil) == (hfail && !ackErrors), "a handler error means Nack unless AckCommandHandlingErrors")
	case 1, 2:
		vrt.Assert(len(log.who) == 0, "the handler is not invoked for another type")
		vrt.Assert(herr == nil, "commands of other types are acknowledged")
	case 3:
		vrt.Assert(len(log.who) == 0, "a malformed payload never reaches the handler")
		vrt.Assert(herr != nil, "and is rejected")
	}
}

// HarnessC15Event: EventBus.Publish -> EventProcessor handler func with AckOnUnknownEvent.
func HarnessC15Event() {
	m := c15Marshaler()
	pub := &c15Pub{}
	bus, err := NewEventBusWithConfig(pub, EventBusConfig{
		GeneratePublishTopic: func(p GenerateEventPublishTopicParams) (string, error) { return "topic." + p.EventName, nil },
		Marshaler:            m,
	})
	vrt.Assert(err == nil, "bus created")
	kind, a, _, msg := c15Incoming(m, func(v any) error { return bus.Publish(context.Background(), v) }, pub)
	log := &c15Log{current: msg}
	ackUnknown := vrt.Bool("AckOnUnknownEvent")
	hfail := vrt.Bool("handler.fails")
	p := EventProcessor{config: EventProcessorConfig{Marshaler: m, AckOnUnknownEvent: ackUnknown, Logger: watermill.NopLogger{}}}
	fn, err := p.routerHandlerFunc(c15CmdHandlerA{log: log, id: 1, fail: hfail}, watermill.NopLogger{})
	vrt.Assert(err == nil, "handler func built")
	herr := fn(msg)
	vrt.Observe("invoked", len(log.who))
	vrt.Observe("err", herr != nil)
	switch kind {
	case 0:
		vrt.Assert(len(log.who) == 1 && log.gotA[0] == a && log.origOK[0], "matching event: handler invoked once with an equal value and the original message in its context")
		vrt.Assert((herr != nil) == hfail, "a handler error means Nack")
	case 1, 2:
		vrt.Assert(len(log.who) == 0, "the handler is not invoked for another type")
		vrt.Assert((herr == nil) == ackUnknown, "events of other types are acked or rejected as AckOnUnknownEvent says")
	case 3:
		vrt.Assert(len(log.who) == 0 && herr != nil, "malformed payload: not handled, rejected")
	}
}

// HarnessC15Group: EventGroupProcessor calls the matching handlers in registration order and stops at the first error.
func HarnessC15Group() {
	m := c15Marshaler()
	pub := &c15Pub{}
	bus, _ := NewEventBusWithConfig(pub, EventBusConfig{
		GeneratePublishTopic: func(p GenerateEventPublishTopicParams) (string, error) { return "topic." + p.EventName, nil },
		Marshaler:            m,
	})
	kind, a, b, msg := c15Incoming(m, func(v any) error { return bus.Publish(context.Background(), v) }, pub)
	vrt.Assume(kind != 3)
	log := &c15Log{current: msg}
	ackUnknown := vrt.Bool("AckOnUnknownEvent")
	n := 3
	var handlers []GroupEventHandler
	isA := make([]bool, n)
	fails := make([]bool, n)
	for i := 0; i < n; i++ {
		isA[i] = vrt.Bool("h" + strconv.Itoa(i) + ".isA")
		fails[i] = vrt.Bool("h" + strconv.Itoa(i) + ".fails")
		if isA[i] {
			handlers = append(handlers, c15CmdHandlerA{log: log, id: i, fail: fails[i]})
		} else {
			handlers = append(handlers, c15HandlerB{log: log, id: i, fail: fails[i]})
		}
	}
	p := EventGroupProcessor{config: EventGroupProcessorConfig{Marshaler: m, AckOnUnknownEvent: ackUnknown, Logger: watermill.NopLogger{}}}
	fn, err := p.routerHandlerGroupFunc(handlers, "g", watermill.NopLogger{})
	vrt.Assert(err == nil, "group func built")
	herr := fn(msg)
	// expected invocation sequence
	var want []int
	failed := false
	for i := 0; i < n && !failed; i++ {
		if (kind == 0 && isA[i]) || (kind == 1 && !isA[i]) {
			want = append(want, i)
			if fails[i] {
				failed = true
			}
		}
	}
	ok := len(want) == len(log.who)
	for i := 0; ok && i < len(want); i++ {
		if want[i] != log.who[i] {
			ok = false
		}
	}
	vrt.Observe("invoked", len(log.who))
	vrt.Assert(ok, "the matching handlers are called in registration order, stopping at the first error")
	for i := range log.gotA {
		vrt.Assert(log.gotA[i] == a, "each handler gets a value equal to the one sent")
	}
	for i := range log.gotB {
		vrt.Assert(log.gotB[i] == b, "each handler gets a value equal to the one sent")
	}
	for _, o := range log.origOK {
		vrt.Assert(o, "the handler's context exposes the original message")
	}
	if failed {
		vrt.Assert(herr != nil, "a handler error means Nack")
	} else if len(want) > 0 {
		vrt.Assert(herr == nil, "handled: Ack")
	} else {
		vrt.Assert((herr == nil) == ackUnknown, "no matching handler: AckOnUnknownEvent decides")
	}
}
