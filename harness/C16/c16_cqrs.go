//verif:target components/cqrs/zz_verif_c16.go

package cqrs

import (
	"github.com/ThreeDotsLabs/watermill/zzverif/vrt"
)

type c16Value struct {
	N    int
	S    string
	Flag bool
	Tags []string
}

// HarnessC16CQRSJSON: for the JSON marshaler, Unmarshal(Marshal(v)) == v and NameFromMessage(Marshal(v)) == Name(v).
func HarnessC16CQRSJSON() {
	m := JSONMarshaler{}
	if vrt.Bool("customname") {
		m = JSONMarshaler{GenerateName: StructName}
	}
	v := &c16Value{N: vrt.Int("n", -1000, 1000), S: vrt.Str("s"), Flag: vrt.Bool("flag")}
	if vrt.Bool("tags") {
		v.Tags = []string{vrt.Str("t0"), vrt.Str("t1")}
	}
	msg, err := m.Marshal(v)
	vrt.Assert(err == nil, "marshal succeeds")
	vrt.Assert(m.NameFromMessage(msg) == m.Name(v), "the name read from the message equals the name of the value")
	var back c16Value
	vrt.Assert(m.Unmarshal(msg, &back) == nil, "unmarshal succeeds")
	same := back.N == v.N && back.S == v.S && back.Flag == v.Flag && len(back.Tags) == len(v.Tags)
	for i := range v.Tags {
		if same && back.Tags[i] != v.Tags[i] {
			same = false
		}
	}
	vrt.Observe("same", same)
	vrt.Assert(same, "Unmarshal after Marshal is the identity")
}
