//verif:target components/forwarder/zz_verif_c16.go

package forwarder

import (
	"context"
	"strconv"

	"github.com/ThreeDotsLabs/watermill/message"
	"github.com/ThreeDotsLabs/watermill/zzverif/vrt"
)

type c16Key struct{}

// HarnessC16Envelope: unwrap(wrap(topic, m)) returns the destination topic and a message with the same
// UUID, payload and metadata and the original context; an empty destination is rejected.
func HarnessC16Envelope() {
	m := message.NewMessage(vrt.Str("uuid"), message.Payload(vrt.Bytes("payload", vrt.Bound("maxpayload", 2))))
	n := vrt.Int("nmeta", 0, vrt.Bound("maxmeta", 2))
	for i := 0; i < n; i++ {
		m.Metadata.Set(vrt.Str("k"+strconv.Itoa(i)), vrt.Str("v"+strconv.Itoa(i)))
	}
	m.SetContext(context.WithValue(context.Background(), c16Key{}, "ctx"))
	topic := vrt.Str("topic")
	env, err := wrapMessageInEnvelope(topic, m)
	if topic == "" {
		vrt.Assert(err != nil, "an empty destination topic is rejected")
		return
	}
	vrt.Assert(err == nil, "wrapping succeeds for a non-empty destination")
	if vrt.Bool("another.message.wrapped.in.between") {
		// envelopes are independent values: wrapping a second message must not disturb the first envelope
		// (the second one is as small as an envelope gets, so that natively it fits into any buffer the first one used)
		other := message.NewMessage("o", nil)
		env2, err := wrapMessageInEnvelope("e", other)
		vrt.Assert(err == nil, "wrapping the second message succeeds")
		d2, b2, err := unwrapMessageFromEnvelope(env2)
		vrt.Assert(err == nil && d2 == "e" && b2.UUID == "o" && len(b2.Payload) == 0, "the second envelope round-trips")
	}
	dest, back, err := unwrapMessageFromEnvelope(env)
	vrt.Assert(err == nil, "unwrapping what was wrapped succeeds")
	vrt.Assert(dest == topic, "the destination topic survives the round trip")
	same := back.UUID == m.UUID && len(back.Payload) == len(m.Payload) && len(back.Metadata) == len(m.Metadata)
	for i := range m.Payload {
		if same && back.Payload[i] != m.Payload[i] {
			same = false
		}
	}
	for k, v := range m.Metadata {
		if w, ok := back.Metadata[k]; !ok || w != v {
			same = false
		}
	}
	vrt.Observe("same", same)
	vrt.Assert(same, "UUID, payload and metadata survive the envelope round trip")
	vrt.Assert(back.Context().Value(c16Key{}) == "ctx", "the context is propagated")
}
