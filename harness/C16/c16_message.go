//verif:target message/zz_verif_c16.go

package message

import (
	"strconv"

	"github.com/ThreeDotsLabs/watermill/zzverif/vrt"
)

// symMessage builds a message with arbitrary UUID, payload (nil, empty or up to maxPayload
// arbitrary bytes) and up to maxMeta arbitrary metadata entries (keys and values arbitrary
// strings, including empty; entries with equal keys collapse as in any Go map).
func symMessage(prefix string, maxMeta, maxPayload int) *Message {
	m := NewMessage("", Payload(vrt.Bytes(prefix+".payload", maxPayload)))
	m.UUID = vrt.Str(prefix + ".uuid") // any string, the empty one included (the field is public)
	n := vrt.Int(prefix+".nmeta", 0, maxMeta)
	direct := vrt.Bool(prefix + ".metadata.filled.directly") // map index assignment (as a decoder would) or Metadata.Set
	for i := 0; i < n; i++ {
		k, v := vrt.Str(prefix+".k"+strconv.Itoa(i)), vrt.Str(prefix+".v"+strconv.Itoa(i))
		if direct {
			m.Metadata[k] = v
		} else {
			m.Metadata.Set(k, v)
		}
	}
	return m
}

// specEquals is the property's definition of equality, written independently of Equals:
// same UUID, same payload bytes, and the same key set with the same values.
func specEquals(a, b *Message) bool {
	if a.UUID != b.UUID {
		return false
	}
	if len(a.Payload) != len(b.Payload) {
		return false
	}
	for i := range a.Payload {
		if a.Payload[i] != b.Payload[i] {
			return false
		}
	}
	for k, v := range a.Metadata {
		w, ok := b.Metadata[k]
		if !ok || v != w {
			return false
		}
	}
	for k, v := range b.Metadata {
		w, ok := a.Metadata[k]
		if !ok || v != w {
			return false
		}
	}
	return true
}

// HarnessC16Equals: Equals(a,b) <=> spec, and Equals is symmetric, for all messages within the bound.
func HarnessC16Equals() {
	a := symMessage("a", vrt.Bound("maxmeta", 2), vrt.Bound("maxpayload", 2))
	b := symMessage("b", vrt.Bound("maxmeta", 2), vrt.Bound("maxpayload", 2))
	got := a.Equals(b)
	want := specEquals(a, b)
	vrt.Observe("equals", got)
	vrt.Assert(got == want, "Equals is true exactly when UUID, payload and the whole metadata set coincide")
	vrt.Assert(got == b.Equals(a), "Equals is symmetric")
}

// HarnessC16Copy: Copy equals the original, owns its metadata, is unsettled and carries no context.
func HarnessC16Copy() {
	a := symMessage("a", vrt.Bound("maxmeta", 2), vrt.Bound("maxpayload", 2))
	if vrt.Bool("a.metadata.nil") {
		a.Metadata = nil // a message built as a struct literal: its copy still owns a (writable) metadata map
	}
	c := a.Copy()
	vrt.Assert(c != a, "Copy returns a new message")
	vrt.Assert(specEquals(a, c), "Copy has the same UUID, payload and metadata")
	vrt.Assert(a.Equals(c) && c.Equals(a), "Copy Equals the original")
	vrt.Assert(!vrt.Closed(c.Acked()) && !vrt.Closed(c.Nacked()), "Copy is unsettled")
	vrt.Assert(c.ctx == nil, "Copy carries no context")
	// the copy owns its metadata: mutating either side leaves the other untouched
	k, v := vrt.Str("mut.k"), vrt.Str("mut.v")
	before, had := a.Metadata[k]
	c.Metadata.Set(k, v)
	after, has := a.Metadata[k]
	vrt.Assert(had == has && before == after, "mutating the copy's metadata leaves the original untouched")
	k2, v2 := vrt.Str("mut.k2"), vrt.Str("mut.v2")
	cb, chad := c.Metadata[k2]
	if a.Metadata == nil {
		a.Metadata = Metadata{}
	}
	a.Metadata.Set(k2, v2)
	ca, chas := c.Metadata[k2]
	vrt.Assert(chad == chas && cb == ca, "mutating the original's metadata leaves the copy untouched")
	// settling the copy does not settle the original
	c.Ack()
	vrt.Assert(!vrt.Closed(a.Acked()) && !vrt.Closed(a.Nacked()), "settling the copy leaves the original unsettled")
	vrt.Observe("copy.nmeta", len(c.Metadata))
}
