//verif:target components/requestreply/zz_verif_c16.go

package requestreply

import (
	"errors"

	pkgerrors "github.com/pkg/errors"

	"github.com/ThreeDotsLabs/watermill/zzverif/vrt"
)

type c16Result struct {
	N int
	S string
}

// HarnessC16Reply: a reply marshalled by the handler side unmarshals to the same result and error text (incl. the has-error flag).
func HarnessC16Reply() {
	m := BackendPubsubJSONMarshaler[c16Result]{}
	res := c16Result{N: vrt.Int("n", -1000, 1000), S: vrt.Str("s")}
	var herr error
	text := vrt.Str("errtext")
	if vrt.Bool("errtext.with.percent.signs") {
		text = "disk is 100% full, 7%% left, ends with %" // an error text is data, never a format
	}
	if vrt.Bool("has.error") {
		herr = errors.New(text)
		if vrt.Bool("error.is.wrapped") {
			// the text of an error is the text of the whole chain
			herr = pkgerrors.Wrap(herr, "cannot handle command")
			text = "cannot handle command: " + text
		}
	}
	msg, err := m.MarshalReply(BackendOnCommandProcessedParams[c16Result]{HandlerResult: res, HandleErr: herr})
	vrt.Assert(err == nil, "marshal succeeds")
	back, err := m.UnmarshalReply(msg)
	vrt.Assert(err == nil, "unmarshal succeeds")
	vrt.Assert(back.HandlerResult == res, "the result survives the round trip")
	vrt.Assert((back.Error != nil) == (herr != nil), "the has-error flag survives (also for an empty error text)")
	if herr != nil {
		vrt.Assert(back.Error.Error() == text, "the error text survives")
	}
	vrt.Observe("haserr", back.Error != nil)
}
