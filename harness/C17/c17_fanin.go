//verif:target components/fanin/zz_verif_c17.go

package fanin

import (
	"fmt"
	"context"
	"errors"
	"sync"

	"github.com/ThreeDotsLabs/watermill"
	"github.com/ThreeDotsLabs/watermill/message"
	"github.com/ThreeDotsLabs/watermill/zzverif/vrt"
)

var errScripted = errors.New("scripted failure")

type fiSub struct {
	mu     sync.Mutex
	chans  map[string]chan *message.Message
	closed bool
}

func (s *fiSub) Subscribe(ctx context.Context, topic string) (<-chan *message.Message, error) {
	s.mu.Lock()
	defer s.mu.Unlock()
	ch := make(chan *message.Message)
	s.chans[topic] = ch
	return ch, nil
}
func (s *fiSub) Close() error {
	s.mu.Lock()
	defer s.mu.Unlock()
	if !s.closed {
		s.closed = true
		for _, c := range s.chans {
			close(c)
		}
	}
	return nil
}

type fiCall struct {
	topic string
	msgs  []*message.Message
	state int
}
type fiPub struct {
	mu       sync.Mutex
	calls    []fiCall
	failFirst bool
	aborted   bool
	consumed  *message.Message
}

func (p *fiPub) Publish(topic string, msgs ...*message.Message) error {
	p.mu.Lock()
	defer p.mu.Unlock()
	st := 0
	if vrt.Closed(p.consumed.Acked()) {
		st = 1
	} else if vrt.Closed(p.consumed.Nacked()) {
		st = 2
	}
	p.calls = append(p.calls, fiCall{topic, append([]*message.Message(nil), msgs...), st})
	if p.failFirst && len(p.calls) == 1 {
		if p.aborted {
			return fmt.Errorf("publish aborted: %w", context.Canceled) // what a context-aware publisher reports
		}
		return errScripted
	}
	return nil
}
func (p *fiPub) Close() error { return nil }

// HarnessC17FanIn: a message consumed from a source topic is relayed to the target topic with UUID, payload and
// metadata intact; it is acked only after the destination accepted it and nacked when the destination fails.
func HarnessC17FanIn() {
	msg := message.NewMessage("u1", message.Payload("p1"))
	msg.Metadata.Set("k", "v")
	sub := &fiSub{chans: map[string]chan *message.Message{}}
	pub := &fiPub{failFirst: vrt.Bool("dest.fails"), aborted: vrt.Bool("dest.error.is.context.canceled"), consumed: msg}
	fi, err := NewFanIn(sub, pub, Config{SourceTopics: []string{"src"}, TargetTopic: "target"}, watermill.NopLogger{})
	vrt.Assert(err == nil, "fan-in created")
	ctx, cancel := context.WithCancel(context.Background())
	go func() {
		vrt.MayBlock()
		_ = fi.Run(ctx)
	}()
	<-fi.Running()
	sub.chans["src"] <- msg
	select {
	case <-msg.Acked():
	case <-msg.Nacked():
	}
	vrt.Assert(len(pub.calls) == 1, "relayed with exactly one publish call")
	c := pub.calls[0]
	vrt.Assert(c.topic == "target", "to the target topic")
	vrt.Assert(len(c.msgs) == 1 && c.msgs[0].UUID == "u1" && string(c.msgs[0].Payload) == "p1" && c.msgs[0].Metadata.Get("k") == "v", "with UUID, payload and metadata intact")
	vrt.Assert(c.state == 0, "the consumed message is not settled before the destination answered")
	if pub.failFirst {
		vrt.Assert(vrt.Closed(msg.Nacked()), "destination failure: Nack")
	} else {
		vrt.Assert(vrt.Closed(msg.Acked()), "acknowledged after the destination accepted it")
	}
	cancel()
}

// HarnessC17FanInTwo: a subscriber that hands over the next message of a source topic before the previous one
// is settled (nothing forbids that): two messages of one topic are in flight through the FanIn router at once.
// Each is relayed exactly once, intact, and both are acknowledged.
func HarnessC17FanInTwo() {
	m1, m2 := message.NewMessage("u1", message.Payload("p1")), message.NewMessage("u2", message.Payload("p2"))
	sub := &fiSub{chans: map[string]chan *message.Message{}}
	pub := &fiPub{consumed: m1}
	fi, err := NewFanIn(sub, pub, Config{SourceTopics: []string{"src"}, TargetTopic: "target"}, watermill.NopLogger{})
	vrt.Assert(err == nil, "fan-in created")
	ctx, cancel := context.WithCancel(context.Background())
	go func() {
		vrt.MayBlock()
		_ = fi.Run(ctx)
	}()
	<-fi.Running()
	sub.chans["src"] <- m1
	sub.chans["src"] <- m2
	<-m1.Acked()
	<-m2.Acked()
	n1, n2 := 0, 0
	for _, c := range pub.calls {
		vrt.Assert(c.topic == "target" && len(c.msgs) == 1, "one message per publish call, to the target topic")
		switch {
		case c.msgs[0].UUID == "u1" && string(c.msgs[0].Payload) == "p1":
			n1++
		case c.msgs[0].UUID == "u2" && string(c.msgs[0].Payload) == "p2":
			n2++
		}
	}
	vrt.Assert(n1 == 1 && n2 == 1 && len(pub.calls) == 2, "each consumed message is relayed exactly once: none lost, none doubled")
	vrt.Observe("calls", len(pub.calls))
	cancel()
}
