//verif:target pubsub/gochannel/zz_verif_c17.go

package gochannel

import (
	"context"
	"sync"

	"github.com/ThreeDotsLabs/watermill"
	"github.com/ThreeDotsLabs/watermill/message"
	"github.com/ThreeDotsLabs/watermill/zzverif/vrt"
)

type foSub struct {
	mu    sync.Mutex
	chans map[string]chan *message.Message
}

func (s *foSub) Subscribe(ctx context.Context, topic string) (<-chan *message.Message, error) {
	s.mu.Lock()
	defer s.mu.Unlock()
	ch := make(chan *message.Message)
	s.chans[topic] = ch
	return ch, nil
}
func (s *foSub) Close() error { return nil }

// HarnessC17FanOut: a message consumed from the upstream subscriber is delivered to every subscription of the
// fan-out on the same topic with UUID, payload and metadata intact, and the upstream message is acknowledged.
func HarnessC17FanOut() {
	up := &foSub{chans: map[string]chan *message.Message{}}
	fo, err := NewFanOut(up, watermill.NopLogger{})
	vrt.Assert(err == nil, "fan-out created")
	fo.AddSubscription("t")
	ctx, cancel := context.WithCancel(context.Background())
	out, err := fo.Subscribe(ctx, "t")
	vrt.Assert(err == nil, "subscribed")
	go func() {
		vrt.MayBlock()
		_ = fo.Run(ctx)
	}()
	<-fo.Running()
	msg := message.NewMessage("u1", message.Payload("p1"))
	msg.Metadata.Set("k", "v")
	up.chans["t"] <- msg
	got := <-out
	vrt.Assert(got.UUID == "u1" && string(got.Payload) == "p1" && got.Metadata.Get("k") == "v", "relayed on the same topic with UUID, payload and metadata intact")
	got.Ack()
	<-msg.Acked() // main must finish: the upstream message is acknowledged
	cancel()
}
