//verif:target components/forwarder/zz_verif_c17.go

package forwarder

import (
	"context"
	"encoding/json"
	"errors"
	"strconv"

	"github.com/ThreeDotsLabs/watermill"
	"github.com/ThreeDotsLabs/watermill/message"
	"github.com/ThreeDotsLabs/watermill/zzverif/vrt"
)

var errScripted = errors.New("scripted failure")

type fwdCall struct {
	topic string
	msgs  []*message.Message
}

type fwdPublisher struct {
	calls []fwdCall
	fail  bool
}

func (p *fwdPublisher) Publish(topic string, msgs ...*message.Message) error {
	p.calls = append(p.calls, fwdCall{topic, append([]*message.Message(nil), msgs...)})
	if p.fail {
		return errScripted
	}
	return nil
}
func (p *fwdPublisher) Close() error { return nil }

func c17Message(prefix string) *message.Message {
	m := message.NewMessage(vrt.Str(prefix+".uuid"), message.Payload(vrt.Bytes(prefix+".payload", vrt.Bound("maxpayload", 2))))
	n := vrt.Int(prefix+".nmeta", 0, vrt.Bound("maxmeta", 2))
	for i := 0; i < n; i++ {
		m.Metadata.Set(vrt.Str(prefix+".k"+strconv.Itoa(i)), vrt.Str(prefix+".v"+strconv.Itoa(i)))
	}
	return m
}

func sameContent(a, b *message.Message) bool {
	if a.UUID != b.UUID || len(a.Payload) != len(b.Payload) || len(a.Metadata) != len(b.Metadata) {
		return false
	}
	for i := range a.Payload {
		if a.Payload[i] != b.Payload[i] {
			return false
		}
	}
	for k, v := range a.Metadata {
		if w, ok := b.Metadata[k]; !ok || w != v {
			return false
		}
	}
	return true
}

type ctxKey struct{}

// HarnessC17Forward: a message published through forwarder.Publisher and relayed by the real
// forwardMessage arrives at the topic named at publish time with UUID, payload and metadata intact;
// destination failure => error (Nack); non-envelopes are never forwarded and acked/nacked per AckWhenCannotUnwrap.
func HarnessC17Forward() {
	kind := vrt.Int("kind", 0, 3) // 0 valid envelope via Publisher, 1 not an envelope, 2 envelope with empty destination, 3 a valid envelope followed by more data
	ack := vrt.Bool("ackWhenCannotUnwrap")
	dest := &fwdPublisher{fail: vrt.Bool("dest.fails")}
	f := &Forwarder{publisher: dest, logger: watermill.NopLogger{}, config: Config{AckWhenCannotUnwrap: ack, ForwarderTopic: "fwd"}} // a destination may be called "fwd" too (output side is another Pub/Sub)
	orig := c17Message("m")
	topic := vrt.Str("topic")
	var consumed *message.Message
	switch kind {
	case 0:
		vrt.Assume(topic != "")
		outbox := &fwdPublisher{}
		p := NewPublisher(outbox, PublisherConfig{})
		orig.SetContext(context.WithValue(context.Background(), ctxKey{}, "v"))
		batch := []*message.Message{orig} // the caller's own argument slice
		err := p.Publish(topic, batch...)
		vrt.Assert(err == nil, "publishing through the forwarder publisher succeeds")
		vrt.Assert(batch[0] == orig, "Publish leaves the caller's argument slice alone (it can be published again)")
		vrt.Assert(len(outbox.calls) == 1 && outbox.calls[0].topic == defaultForwarderTopic && len(outbox.calls[0].msgs) == 1, "one envelope goes to the forwarder topic")
		consumed = outbox.calls[0].msgs[0]
		vrt.Assert(consumed.Context().Value(ctxKey{}) == "v", "the envelope carries the message context")
		if vrt.Bool("envelope.message.has.metadata.of.its.own") {
			// the transport (a publisher decorator, a requeuer, a delay component) stamped the envelope message itself:
			// none of that belongs to the wrapped message
			consumed.Metadata.Set(vrt.Str("transport.key"), "stamped-in-transit")
		}
		if vrt.Bool("another.publish.before.forwarding") {
			// the outbox keeps what it was given (like a persistent or asynchronous Pub/Sub): a later Publish through
			// the same forwarder publisher must not disturb the envelope published before
			vrt.Assert(p.Publish("e", message.NewMessage("o", nil)) == nil, "second publish")
			vrt.Assert(len(outbox.calls) == 2, "second envelope published")
		}
	case 1:
		consumed = message.NewMessage("x", message.Payload(vrt.Bytes("garbage", 2)))
	case 2:
		b, _ := json.Marshal(&messageEnvelope{DestinationTopic: "", UUID: orig.UUID, Payload: orig.Payload, Metadata: orig.Metadata})
		consumed = message.NewMessage("x", b)
	case 3:
		// malformed: a payload that merely starts with a well-formed envelope (two envelopes glued together, "{...}}garbage")
		b, _ := json.Marshal(&messageEnvelope{DestinationTopic: "somewhere", UUID: orig.UUID, Payload: orig.Payload, Metadata: orig.Metadata})
		tail := vrt.Bytes("trailing", 2)
		vrt.Assume(len(tail) > 0 && tail[0] > ' ')
		consumed = message.NewMessage("x", append(append([]byte{}, b...), tail...))
	}
	err := f.forwardMessage(consumed)
	vrt.Observe("err", err != nil)
	vrt.Observe("calls", len(dest.calls))
	if kind != 0 {
		vrt.Assert(len(dest.calls) == 0, "a message that is not a valid envelope is never forwarded")
		vrt.Assert((err == nil) == ack, "it is acked or nacked as AckWhenCannotUnwrap says")
		return
	}
	vrt.Assert(len(dest.calls) == 1, "the message is relayed exactly once")
	c := dest.calls[0]
	vrt.Assert(c.topic == topic, "to the topic named when it was published")
	vrt.Assert(len(c.msgs) == 1 && sameContent(c.msgs[0], orig), "with UUID, payload and metadata intact")
	vrt.Assert((err != nil) == dest.fail, "acknowledged only if the destination accepted it; Nack when the destination fails")
}

// HarnessC17EmptyTopic: publishing to an empty destination topic is rejected.
func HarnessC17EmptyTopic() {
	outbox := &fwdPublisher{}
	p := NewPublisher(outbox, PublisherConfig{ForwarderTopic: vrt.Str("fwdtopic")})
	err := p.Publish("", c17Message("m"))
	vrt.Assert(err != nil && len(outbox.calls) == 0, "an empty destination topic is rejected and nothing is published")
}
