//verif:target components/requeuer/zz_verif_c17.go

package requeuer

import (
	"context"
	"errors"
	"strconv"
	"time"

	"github.com/ThreeDotsLabs/watermill/message"
	"github.com/ThreeDotsLabs/watermill/zzverif/vrt"
)

var errScripted = errors.New("scripted failure")

type rqCall struct {
	topic string
	msgs  []*message.Message
}
type rqPublisher struct {
	calls []rqCall
	fail  bool
}

func (p *rqPublisher) Publish(topic string, msgs ...*message.Message) error {
	p.calls = append(p.calls, rqCall{topic, append([]*message.Message(nil), msgs...)})
	if p.fail {
		return errScripted
	}
	return nil
}
func (p *rqPublisher) Close() error { return nil }

// HarnessC17Requeue: the real requeuer handler republishes the message to the generated topic with the
// retries counter raised by exactly one and everything else intact; failures mean Nack (error).
func HarnessC17Requeue() {
	pub := &rqPublisher{fail: vrt.Bool("pub.fails")}
	genFails := vrt.Bool("gen.fails")
	topic := vrt.Str("topic")
	r := &Requeuer{config: Config{Publisher: pub, GeneratePublishTopic: func(p GeneratePublishTopicParams) (string, error) {
		if genFails {
			return "", errScripted
		}
		return topic, nil
	}}}
	msg := message.NewMessage(vrt.Str("uuid"), message.Payload(vrt.Bytes("payload", 2)))
	k, v := vrt.Str("k"), vrt.Str("v")
	vrt.Assume(k != RetriesKey)
	msg.Metadata.Set(k, v)
	counter := vrt.Int("retries.kind", 0, 2) // 0 absent, 1 decimal n >= 0, 2 garbage
	n := vrt.Int("retries.n", 0, 1<<40)
	switch counter {
	case 1:
		msg.Metadata.Set(RetriesKey, strconv.Itoa(n))
	case 2:
		msg.Metadata.Set(RetriesKey, "not-a-number")
	}
	err := r.handler(msg)
	vrt.Observe("err", err != nil)
	if genFails {
		vrt.Assert(err != nil && len(pub.calls) == 0, "no topic: error, nothing published")
		return
	}
	vrt.Assert(len(pub.calls) == 1 && pub.calls[0].topic == topic, "published once to the generated topic")
	vrt.Assert(len(pub.calls[0].msgs) == 1 && pub.calls[0].msgs[0] == msg, "the consumed message itself (UUID and payload intact)")
	want := 1
	if counter == 1 {
		want = n + 1
	}
	vrt.Assert(msg.Metadata.Get(RetriesKey) == strconv.Itoa(want), "the retries counter is raised by exactly one")
	vrt.Assert(msg.Metadata.Get(k) == v && len(msg.Metadata) == 2, "other metadata intact")
	vrt.Assert((err != nil) == pub.fail, "Ack only if the destination accepted it, Nack when it fails")
}

// HarnessC17RequeueDelay: with Delay > 0 the handler waits; if the message context ends during the wait the
// message is neither published nor acknowledged (an error is returned, so the Router Nacks it).
func HarnessC17RequeueDelay() {
	pub := &rqPublisher{}
	r := &Requeuer{config: Config{Publisher: pub, Delay: time.Second, GeneratePublishTopic: func(p GeneratePublishTopicParams) (string, error) {
		return "dest", nil
	}}}
	msg := message.NewMessage("u", nil)
	ctx, cancel := context.WithCancel(context.Background())
	msg.SetContext(ctx)
	go cancel()
	err := r.handler(msg)
	vrt.Observe("published", len(pub.calls))
	vrt.Assert(len(pub.calls) <= 1, "at most one publish")
	vrt.Assert(err == nil || len(pub.calls) == 0, "an error means nothing was published")
	vrt.Assert(err != nil || len(pub.calls) == 1, "the message is acknowledged (nil) only after the destination accepted it")
}
