//verif:target components/requestreply/zz_verif_c18.go

package requestreply

import (
	"context"
	"errors"
	"strconv"
	"sync"
	"time"

	"github.com/ThreeDotsLabs/watermill"
	"github.com/ThreeDotsLabs/watermill/message"
	"github.com/ThreeDotsLabs/watermill/zzverif/vrt"
)

var errScripted = errors.New("scripted failure")

type c18Result struct{ N int }

// notifSubscriber: one notifications subscription whose channel the environment feeds; closed on Close.
type notifSubscriber struct {
	mu   sync.Mutex
	chs  []chan *message.Message
	ctxs []context.Context
}

func (s *notifSubscriber) Subscribe(ctx context.Context, topic string) (<-chan *message.Message, error) {
	s.mu.Lock()
	defer s.mu.Unlock()
	ch := make(chan *message.Message)
	s.chs = append(s.chs, ch)
	s.ctxs = append(s.ctxs, ctx)
	return ch, nil
}
func (s *notifSubscriber) Close() error { return nil }

type c18Pub struct {
	mu    sync.Mutex
	msgs  []*message.Message
	fail  bool
	state []int // settlement of the command message sampled at publish time
	cmd   *message.Message
}

func (p *c18Pub) Publish(topic string, msgs ...*message.Message) error {
	p.mu.Lock()
	defer p.mu.Unlock()
	if p.cmd != nil {
		a, n := vrt.Closed(p.cmd.Acked()), vrt.Closed(p.cmd.Nacked())
		s := 0
		if a {
			s = 1
		} else if n {
			s = 2
		}
		p.state = append(p.state, s)
	}
	if p.fail {
		return errScripted
	}
	p.msgs = append(p.msgs, msgs...)
	return nil
}
func (p *c18Pub) Close() error { return nil }

var c18Timeout *time.Duration // ListenForReplyTimeout of the next backend built
var c18FinishedAt time.Time

func c18Backend(sub *notifSubscriber, pub message.Publisher, finished *int, ackErrors bool) *PubSubBackend[c18Result] {
	b, err := NewPubSubBackend[c18Result](PubSubBackendConfig{
		ListenForReplyTimeout:  c18Timeout,
		Publisher:              pub,
		SubscriberConstructor:  func(PubSubBackendSubscribeParams) (message.Subscriber, error) { return sub, nil },
		GeneratePublishTopic:   func(PubSubBackendPublishParams) (string, error) { return "replies", nil },
		GenerateSubscribeTopic: func(PubSubBackendSubscribeParams) (string, error) { return "replies", nil },
		Logger:                 watermill.NopLogger{},
		AckCommandErrors:       ackErrors,
		OnListenForReplyFinished: func(context.Context, PubSubBackendSubscribeParams) {
			*finished++
			c18FinishedAt = time.Now()
		},
	}, BackendPubsubJSONMarshaler[c18Result]{})
	vrt.Assert(err == nil, "backend created")
	return b
}

// c18Notification builds a reply notification the way the handler side does (real MarshalReply).
func c18Notification(opID string, n int, failed bool) *message.Message {
	var herr error
	if failed {
		herr = errScripted
	}
	m, err := BackendPubsubJSONMarshaler[c18Result]{}.MarshalReply(BackendOnCommandProcessedParams[c18Result]{HandlerResult: c18Result{N: n}, HandleErr: herr})
	vrt.Assert(err == nil, "marshal reply")
	m.Metadata.Set(OperationIDMetadataKey, opID)
	return m
}

// HarnessC18Listen: the real ListenForNotifications goroutine against a feeder delivering up to 2
// notifications whose operation id is the caller's or another request's; the caller drains / reads one
// then cancels / never reads / cancels at once. The caller sees only its own replies, every
// notification is acked, and after the cancel the listener terminates: reply channel closed,
// OnListenForReplyFinished exactly once.
func HarnessC18Listen() {
	finished := 0
	sub := &notifSubscriber{}
	timeout := 100 * time.Millisecond
	withTimeout := vrt.Bool("ListenForReplyTimeout.set")
	c18Timeout = nil
	if withTimeout {
		c18Timeout = &timeout
	}
	b := c18Backend(sub, &c18Pub{}, &finished, false)
	c18Timeout = nil
	callerBase := context.Background()
	if vrt.Bool("caller.context.has.a.later.deadline") {
		var dc context.CancelFunc
		callerBase, dc = context.WithTimeout(callerBase, time.Hour) // far beyond ListenForReplyTimeout
		defer dc()
	}
	ctx, cancel := context.WithCancel(callerBase) // callers 4 and 5 never cancel
	t0 := time.Now()
	replies, err := b.ListenForNotifications(ctx, BackendListenForNotificationsParams{OperationID: "mine"})
	vrt.Assert(err == nil, "listening")
	nNotif := vrt.Int("notifications", 0, vrt.Bound("maxnotifications", 2))
	notes := make([]*message.Message, nNotif)
	mine := make([]bool, nNotif)
	for i := 0; i < nNotif; i++ {
		mine[i] = vrt.Bool("n" + strconv.Itoa(i) + ".mine")
		id := "other"
		if mine[i] {
			id = "mine"
		}
		notes[i] = c18Notification(id, 10+i, vrt.Bool("n"+strconv.Itoa(i)+".failed"))
	}
	go func() {
		vrt.MayBlock()
		for _, n := range notes {
			if vrt.Timed() {
				time.Sleep(60 * time.Millisecond) // replies keep arriving more often than the timeout
			}
			sub.chs[0] <- n
			<-n.Acked() // a Pub/Sub delivers the next notification after the previous was settled
		}
	}()
	// 0 drains until closed, 1 reads one then cancels, 2 cancels and never reads, 3 cancels at once and drains,
	// 4 neither reads nor cancels, 5 drains and never cancels (4 and 5 rely on the timeout)
	caller := vrt.Int("caller", 0, 5)
	vrt.Assume(caller < 4 || withTimeout)
	vrt.Assume(caller != 1 || (nNotif >= 1 && mine[0])) // "reads one" needs a reply to read
	vrt.Tag("caller", caller)
	got := 0
	check := func(r Reply[c18Result]) {
		if r.NotificationMessage == nil {
			return // the final timeout/cancel reply
		}
		got++
		vrt.Assert(r.NotificationMessage.Metadata.Get(OperationIDMetadataKey) == "mine", "a caller only ever reads replies produced for its own command")
		vrt.Assert(r.HandlerResult.N >= 10, "carrying the handler's result")
	}
	switch caller {
	case 0:
		go func() { cancel() }()
		for r := range replies {
			check(r)
		}
	case 1:
		r, ok := <-replies
		if ok {
			check(r)
		}
		cancel()
	case 2:
		cancel()
	case 3:
		cancel()
		for r := range replies {
			check(r)
		}
	case 4:
	case 5:
		for r := range replies {
			check(r)
		}
	}
	vrt.AtQuiescence(func() {
		if vrt.Timed() && caller >= 4 {
			vrt.Assert(c18FinishedAt.Sub(t0) <= timeout, "the listener ends when the timeout passes, however often replies arrive meanwhile")
		}
		vrt.Assert(vrt.Live("requestreply.PubSubBackend") == 0, "the listener goroutine terminates after the caller cancelled or the timeout passed")
		vrt.Assert(sub.ctxs[0].Err() != nil, "and gives its subscription on the reply topic back (the subscription context has ended)")
		vrt.Assert(finished == 1, "OnListenForReplyFinished runs exactly once")
		vrt.Assert(vrt.IsClosed(replies) || vrt.ChanLen(replies) > 0, "the reply channel is closed")
	})
	vrt.Observe("got", got)
}

// HarnessC18TwoListeners: two concurrent requests share the reply topic (one Pub/Sub subscription each, every
// notification is delivered to both, in either order). Each caller reads exactly the reply of its own command
// with its own result, then cancels; both listeners terminate.
func HarnessC18TwoListeners() {
	var finished [2]int
	sub := &notifSubscriber{}
	ids := [2]string{"A", "B"}
	var replies [2]<-chan Reply[c18Result]
	var cancels [2]context.CancelFunc
	for i := 0; i < 2; i++ {
		b := c18Backend(sub, &c18Pub{}, &finished[i], false)
		ctx, cancel := context.WithCancel(context.Background())
		r, err := b.ListenForNotifications(ctx, BackendListenForNotificationsParams{OperationID: OperationID(ids[i])})
		vrt.Assert(err == nil, "listening")
		replies[i], cancels[i] = r, cancel
	}
	first := vrt.Int("first", 0, 1) // whose reply is published first
	order := [2]int{first, 1 - first}
	failed := [2]bool{vrt.Bool("A.failed"), vrt.Bool("B.failed")}
	for i := 0; i < 2; i++ {
		i := i
		go func() { // the Pub/Sub side of subscription i: every notification, one after the other
			vrt.MayBlock()
			for _, k := range order {
				n := c18Notification(ids[k], 10*(k+1), failed[k])
				sub.chs[i] <- n
				<-n.Acked()
			}
		}()
	}
	var got [2]int
	done := make(chan struct{}, 2)
	for i := 0; i < 2; i++ {
		i := i
		go func() {
			vrt.MustFinish()
			r := <-replies[i]
			vrt.Assert(r.NotificationMessage != nil && r.NotificationMessage.Metadata.Get(OperationIDMetadataKey) == ids[i], "a caller only ever reads replies produced for its own command")
			vrt.Assert(r.HandlerResult.N == 10*(i+1), "carrying its own handler's result")
			vrt.Assert((r.Error != nil) == failed[i], "and its own handler's error")
			got[i]++
			cancels[i]()
			for r := range replies[i] {
				if r.NotificationMessage != nil {
					vrt.Assert(r.NotificationMessage.Metadata.Get(OperationIDMetadataKey) == ids[i], "a caller only ever reads replies produced for its own command")
					got[i]++
				}
			}
			done <- struct{}{}
		}()
	}
	<-done
	<-done
	vrt.AtQuiescence(func() {
		vrt.Assert(got[0] == 1 && got[1] == 1, "each caller got exactly the one reply of its command")
		vrt.Assert(finished[0] == 1 && finished[1] == 1, "OnListenForReplyFinished runs exactly once per request")
		vrt.Assert(vrt.Live("requestreply.PubSubBackend") == 0, "both listener goroutines terminate")
	})
}

// c18Bus is a scripted command bus: it fails, or "sends" the command by remembering the operation id the request
// put on the command message.
type c18Bus struct {
	fail   bool
	opID   string
	sent   int
	sentCh chan struct{}
}

func (b *c18Bus) SendWithModifiedMessage(ctx context.Context, cmd any, modify func(*message.Message) error) error {
	if b.fail {
		return errScripted
	}
	m := message.NewMessage("cmd", nil)
	if err := modify(m); err != nil {
		return err
	}
	b.opID = m.Metadata.Get(OperationIDMetadataKey)
	b.sent++
	close(b.sentCh)
	return nil
}

// HarnessC18Send: the front door. SendWithReplies / SendWithReply over the real PubSubBackend and a scripted command
// bus: when sending the command fails the listener that was already started is stopped again; when it succeeds the
// caller gets the reply produced for its operation id and, after its cancel (or after SendWithReply returned), the
// listener terminates: OnListenForReplyFinished exactly once.
func HarnessC18Send() {
	finished := 0
	sub := &notifSubscriber{}
	b := c18Backend(sub, &c18Pub{}, &finished, false)
	bus := &c18Bus{fail: vrt.Bool("send.fails"), sentCh: make(chan struct{})}
	single := vrt.Bool("SendWithReply")
	if !bus.fail {
		go func() { // the handler side: one reply for the operation, once the command was sent
			vrt.MayBlock()
			<-bus.sentCh
			n := c18Notification(bus.opID, 42, false)
			sub.chs[0] <- n
			<-n.Acked()
		}()
	}
	if single {
		r, err := SendWithReply[c18Result](context.Background(), bus, b, &struct{}{})
		vrt.Assert((err != nil) == bus.fail, "SendWithReply fails exactly when the command cannot be sent")
		if err == nil {
			vrt.Assert(r.Error == nil && r.HandlerResult.N == 42, "the caller gets the reply of its command")
		}
	} else {
		replies, cancel, err := SendWithReplies[c18Result](context.Background(), bus, b, &struct{}{})
		vrt.Assert((err != nil) == bus.fail, "SendWithReplies fails exactly when the command cannot be sent")
		if err == nil {
			r := <-replies
			vrt.Assert(r.Error == nil && r.HandlerResult.N == 42, "the caller gets the reply of its command")
		}
		cancel()
	}
	vrt.AtQuiescence(func() {
		vrt.Assert(vrt.Live("requestreply.PubSubBackend") == 0, "the listener goroutine terminates (also when the command could not be sent)")
		vrt.Assert(finished == 1, "OnListenForReplyFinished runs exactly once")
	})
}

// HarnessC18Processed: OnCommandProcessed publishes the reply before the command is settled and
// returns nil / the handler error as AckCommandErrors says; a failed reply publish is an error (Nack).
func HarnessC18Processed() {
	ackErrors := vrt.Bool("AckCommandErrors")
	handlerFailed := vrt.Bool("handler.failed")
	cmd := message.NewMessage("cmd", nil)
	cmd.Metadata.Set(OperationIDMetadataKey, "op-1")
	pub := &c18Pub{fail: vrt.Bool("reply.publish.fails"), cmd: cmd}
	finished := 0
	b := c18Backend(&notifSubscriber{}, pub, &finished, ackErrors)
	var herr error
	errText := vrt.Str("handler.error.text") // any text, the empty one included
	if handlerFailed {
		herr = errors.New(errText)
	}
	err := b.OnCommandProcessed(context.Background(), BackendOnCommandProcessedParams[c18Result]{
		Command: &struct{}{}, CommandMessage: cmd, HandlerResult: c18Result{N: 7}, HandleErr: herr})
	vrt.Observe("err", err != nil)
	vrt.Assert(len(pub.state) == 1 && pub.state[0] == 0, "the reply is published exactly once, before the command is settled")
	if pub.fail {
		vrt.Assert(err != nil, "a reply that could not be published means Nack, whatever AckCommandErrors says")
		return
	}
	vrt.Assert(len(pub.msgs) == 1 && pub.msgs[0].Metadata.Get(OperationIDMetadataKey) == "op-1", "the reply carries the command's operation id")
	rep, uerr := BackendPubsubJSONMarshaler[c18Result]{}.UnmarshalReply(pub.msgs[0])
	vrt.Assert(uerr == nil && rep.HandlerResult.N == 7, "the reply carries the handler's result")
	vrt.Assert((rep.Error != nil) == handlerFailed && (rep.Error == nil || rep.Error.Error() == errText), "and the handler's error text")
	vrt.Assert((err != nil) == (handlerFailed && !ackErrors), "the command is acked or nacked as AckCommandErrors says")
	vrt.Assert(err == nil || err == herr, "the handler's own error is what makes the command Nack")
}

// HarnessC18ForeignReply: the reply topic is shared with requests of another backend whose result type this
// listener cannot decode (another Result type, another marshaler): such a notification, carrying another
// operation id, arrives before (or after) the caller's own reply. The caller still gets exactly its own reply.
func HarnessC18ForeignReply() {
	finished := 0
	sub := &notifSubscriber{}
	b := c18Backend(sub, &c18Pub{}, &finished, false)
	ctx, cancel := context.WithCancel(context.Background())
	replies, err := b.ListenForNotifications(ctx, BackendListenForNotificationsParams{OperationID: "mine"})
	vrt.Assert(err == nil, "listening")
	foreign := message.NewMessage("f", message.Payload(vrt.Bytes("foreign.payload", 2))) // arbitrary bytes, not a reply of this backend
	foreign.Metadata.Set(OperationIDMetadataKey, "other")
	own := c18Notification("mine", 10, vrt.Bool("own.failed"))
	notes := []*message.Message{foreign, own}
	if vrt.Bool("own.reply.first") {
		notes = []*message.Message{own, foreign}
	}
	go func() {
		vrt.MayBlock()
		for _, n := range notes {
			sub.chs[0] <- n
			select {
			case <-n.Acked():
			case <-n.Nacked():
			}
		}
	}()
	r := <-replies
	vrt.Assert(r.NotificationMessage != nil && r.NotificationMessage.Metadata.Get(OperationIDMetadataKey) == "mine", "a caller only ever reads replies produced for its own command")
	vrt.Assert(r.HandlerResult.N == 10, "carrying the handler's result")
	cancel()
	extra := 0
	for r := range replies {
		if r.NotificationMessage != nil {
			extra++
		}
	}
	vrt.Assert(extra == 0, "and nothing else")
	vrt.AtQuiescence(func() {
		vrt.Assert(finished == 1, "OnListenForReplyFinished runs exactly once")
		vrt.Assert(vrt.Live("requestreply.PubSubBackend") == 0, "the listener goroutine terminates")
	})
	vrt.Observe("done", true)
}

// HarnessC18FirstValue: what SendWithReply does with the listener: it reads ONE value from the reply channel and
// hands it to its caller as the reply. With ListenForReplyTimeout set (the timeout passes at an arbitrary moment,
// possibly just as the reply arrives) that value is always either the caller's own reply or a reply carrying the
// timeout error - never the zero value of a channel closed empty-handed, which would read as "handled, no error".
func HarnessC18FirstValue() {
	finished := 0
	sub := &notifSubscriber{}
	timeout := 100 * time.Millisecond
	c18Timeout = &timeout
	b := c18Backend(sub, &c18Pub{}, &finished, false)
	c18Timeout = nil
	replies, err := b.ListenForNotifications(context.Background(), BackendListenForNotificationsParams{OperationID: "mine"})
	vrt.Assert(err == nil, "listening")
	own := c18Notification("mine", 10, false)
	if vrt.Bool("a.reply.arrives") {
		go func() {
			vrt.MayBlock()
			sub.chs[0] <- own
		}()
	}
	r, ok := <-replies
	vrt.Assert(ok, "the listener does not close the reply channel of a caller that is reading without leaving a reply or the timeout error")
	if ok {
		vrt.Assert(r.Error != nil || (r.NotificationMessage == own && r.HandlerResult.N == 10), "the value is the caller's reply or carries the timeout error")
	}
	vrt.AtQuiescence(func() {
		vrt.Assert(finished == 1, "OnListenForReplyFinished runs exactly once")
		vrt.Assert(vrt.Live("requestreply.PubSubBackend") == 0, "the listener goroutine terminates")
	})
	vrt.Observe("ok", ok)
}
