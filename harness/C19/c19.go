//verif:target message/router/middleware/zz_verif_c19.go

package middleware

import (
	"fmt"
	"strconv"
	"context"
	"time"

	"github.com/pkg/errors"
	"github.com/sony/gobreaker"

	"github.com/ThreeDotsLabs/watermill/components/delay"
	"github.com/ThreeDotsLabs/watermill/message"
	"github.com/ThreeDotsLabs/watermill/zzverif/models"
	"github.com/ThreeDotsLabs/watermill/zzverif/vrt"
)

// c19Result is an arbitrary handler result: 0..2 outputs and nil / plain / wrapped error.
type c19Result struct {
	outs []*message.Message
	err  error
}

func c19ArbResult(prefix string) c19Result {
	var r c19Result
	n := vrt.Int(prefix+"nout", 0, vrt.Bound("maxout", 2))
	for i := 0; i < n; i++ {
		r.outs = append(r.outs, message.NewMessage("o", nil))
	}
	switch vrt.Int(prefix+"errkind", 0, 2) {
	case 1:
		r.err = errScripted
	case 2:
		r.err = errors.Wrap(errScripted, "wrapped")
	}
	return r
}

const (
	mwTimeout = iota
	mwCorrelation
	mwRecoverer
	mwIgnoreOther
	mwInstantAck
	mwCircuitBreaker
	mwDelayOnError
	mwCount
)

func c19Middleware(kind int) message.HandlerMiddleware {
	switch kind {
	case mwTimeout:
		return Timeout(time.Second)
	case mwCorrelation:
		return CorrelationID
	case mwRecoverer:
		return Recoverer
	case mwIgnoreOther:
		return NewIgnoreErrors([]error{errors.New("some other error")}).Middleware
	case mwInstantAck:
		return InstantAck
	case mwCircuitBreaker:
		return NewCircuitBreaker(gobreaker.Settings{Name: "cb"}).Middleware
	case mwDelayOnError:
		return (&DelayOnError{InitialInterval: time.Second, MaxInterval: time.Minute, Multiplier: 2}).Middleware
	}
	panic("bad middleware kind")
}

type c19CtxKey struct{}

// HarnessC19Transparent: each simple middleware passes outputs and error through unchanged and does
// not leave the message context cancelled.
func HarnessC19Transparent() {
	kind := vrt.Int("kind", 0, mwCount-1)
	res := c19ArbResult("h.")
	msg := message.NewMessage("m", nil)
	base, cancelBase := context.WithCancel(context.Background())
	defer cancelBase()
	msg.SetContext(base)
	calls := 0
	sawDeadline := false
	ackedAtStart := false
	derives := vrt.Bool("handler.derives.a.context")
	h := func(m *message.Message) ([]*message.Message, error) {
		calls++
		_, sawDeadline = m.Context().Deadline()
		ackedAtStart = vrt.Closed(m.Acked())
		vrt.Assert(m == msg, "the handler receives the consumed message itself")
		if kind != mwTimeout { // Timeout's own deadline may legitimately pass during the call
			vrt.Assert(m.Context().Err() == nil, "the context is live during the call")
		}
		if derives {
			// what the CQRS processors do: attach a value to the context the message carries at that moment
			m.SetContext(context.WithValue(m.Context(), c19CtxKey{}, "v"))
		}
		return res.outs, res.err
	}
	out, err := c19Middleware(kind)(h)(msg)
	vrt.Observe("calls", calls)
	vrt.Observe("err", err != nil)
	vrt.Assert(calls == 1, "the handler runs exactly once")
	vrt.Assert(sameMsgs(out, res.outs), "outputs pass through unchanged")
	vrt.Assert(err == res.err, "the error passes through unchanged")
	vrt.Assert(msg.Context().Err() == nil, "the message context is not left cancelled after the call")
	if kind == mwTimeout {
		vrt.Assert(sawDeadline, "Timeout: a deadline is visible during the call")
	}
	if kind == mwInstantAck {
		vrt.Assert(ackedAtStart, "InstantAck: the message is acked when the handler starts")
	} else {
		vrt.Assert(!ackedAtStart && settlementOf(msg) == 0, "other middlewares do not settle the message")
	}
	if kind == mwDelayOnError && res.err == nil {
		vrt.Assert(len(msg.Metadata) == 0, "DelayOnError leaves successes untouched")
	}
}

// HarnessC19Correlation: outputs lacking a correlation id get the input's; existing ids are kept.
func HarnessC19Correlation() {
	msg := message.NewMessage("m", nil)
	in := vrt.Str("in.id")
	if vrt.Bool("in.has") {
		msg.Metadata.Set(CorrelationIDMetadataKey, in)
	} else {
		in = ""
	}
	o1, o2 := message.NewMessage("o1", nil), message.NewMessage("o2", nil)
	own := vrt.Str("o1.id")
	has := vrt.Bool("o1.has")
	if has {
		o1.Metadata.Set(CorrelationIDMetadataKey, own)
	}
	o2.Metadata.Set("other", vrt.Str("o2.other"))
	res := c19ArbResult("h.")
	h := func(m *message.Message) ([]*message.Message, error) { return []*message.Message{o1, o2}, res.err }
	out, err := CorrelationID(h)(msg)
	vrt.Assert(err == res.err && len(out) == 2 && out[0] == o1 && out[1] == o2, "outputs and error unchanged")
	if has && own != "" {
		vrt.Assert(o1.Metadata.Get(CorrelationIDMetadataKey) == own, "an existing correlation id is never overwritten")
	} else {
		vrt.Assert(o1.Metadata.Get(CorrelationIDMetadataKey) == in, "an output lacking an id gets the input's")
	}
	vrt.Assert(o2.Metadata.Get(CorrelationIDMetadataKey) == in, "every output lacking an id gets the input's")
	vrt.Assert(o2.Metadata.Get("other") == vrt.Str("o2.other"), "other metadata untouched")
	vrt.Observe("o2.id", o2.Metadata.Get(CorrelationIDMetadataKey))
}

// HarnessC19Recoverer: a panic with any value (string, error, nil) becomes an error carrying it; nothing escapes.
func HarnessC19Recoverer() {
	pk := vrt.Int("panic", 0, 3) // 0 no panic, 1 string, 2 error, 3 nil
	res := c19ArbResult("h.")
	var pv any
	h := func(m *message.Message) ([]*message.Message, error) {
		switch pk {
		case 1:
			pv = "boom"
			panic(pv)
		case 2:
			pv = errScripted
			panic(pv)
		case 3:
			panic(nil)
		}
		return res.outs, res.err
	}
	escaped := true
	var out []*message.Message
	var err error
	func() {
		defer func() {
			if recover() != nil {
				return
			}
		}()
		out, err = Recoverer(h)(message.NewMessage("m", nil))
		escaped = false
	}()
	vrt.Observe("err", err != nil)
	vrt.Assert(!escaped, "no panic escapes Recoverer")
	if pk == 0 {
		vrt.Assert(sameMsgs(out, res.outs) && err == res.err, "without panic the result passes through unchanged")
		return
	}
	vrt.Assert(err != nil, "a panic is turned into an error")
	var rp RecoveredPanicError
	vrt.Assert(errors.As(err, &rp), "the error wraps RecoveredPanicError")
	if pk == 1 || pk == 2 {
		vrt.Assert(rp.V == pv, "the error carries the panic value")
	}
}

// HarnessC19IgnoreErrors: listed errors (also wrapped ones) become success, others pass through.
func HarnessC19IgnoreErrors() {
	listed := errors.New("listed")
	other := errors.New("not listed")
	ie := NewIgnoreErrors([]error{listed})
	var hErr error
	k := vrt.Int("err", 0, 4)
	switch k {
	case 1:
		hErr = listed
	case 2:
		hErr = errors.Wrap(listed, "wrapped")
	case 3:
		hErr = other
	case 4:
		hErr = errors.Wrap(other, "wrapped")
	}
	res := c19ArbResult("h.")
	h := func(m *message.Message) ([]*message.Message, error) { return res.outs, hErr }
	if panics := vrt.Int("panics.under.Recoverer", 0, 2); panics > 0 {
		// IgnoreErrors(Recoverer(h)): a handler that PANICS - even with a listed error or with its text - has not
		// returned a listed error: the failure must stay a failure
		var pv any = listed
		if panics == 2 {
			pv = "listed"
		}
		ph := func(m *message.Message) ([]*message.Message, error) { panic(pv) }
		_, err := ie.Middleware(Recoverer(ph))(message.NewMessage("m", nil))
		vrt.Assert(err != nil, "a recovered panic is never turned into success")
		return
	}
	out, err := ie.Middleware(h)(message.NewMessage("m", nil))
	vrt.Observe("err", err != nil)
	vrt.Assert(sameMsgs(out, res.outs), "outputs unchanged")
	if k == 1 || k == 2 {
		vrt.Assert(err == nil, "listed errors are turned into success")
	} else {
		vrt.Assert(err == hErr, "other errors and successes pass through unchanged")
	}
}

// HarnessC19DelayOnError is the inductive step of the delay schedule: from an arbitrary previous
// delayed-for value d the next failure stamps min(d x Multiplier, MaxInterval); the first failure
// stamps InitialInterval; fractional multipliers included (integer oracle, +/- 1ns).
func HarnessC19DelayOnError() {
	mk := vrt.Int("mult", 0, 3) // 1, 1.5, 2, 3
	mult := []float64{1, 1.5, 2, 3}[mk]
	maxI := time.Duration(vrt.Int("max", 1, 1<<40))
	d := &DelayOnError{InitialInterval: 7 * time.Second, MaxInterval: maxI, Multiplier: mult}
	msg := message.NewMessage("m", nil)
	first := vrt.Bool("first")
	prev := time.Duration(vrt.Int("prev", 1, 1<<40))
	if !first {
		msg.Metadata.Set(delay.DelayedForKey, prev.String())
	}
	hErr := errScripted
	switch vrt.Int("error.kind", 0, 2) {
	case 1:
		hErr = context.Canceled // a failure is a failure, whatever the error is
	case 2:
		hErr = fmt.Errorf("interrupted: %w", context.Canceled)
	}
	_, err := d.Middleware(func(m *message.Message) ([]*message.Message, error) { return nil, hErr })(msg)
	vrt.Assert(err == hErr, "the error passes through")
	got, perr := time.ParseDuration(msg.Metadata.Get(delay.DelayedForKey))
	vrt.Assert(perr == nil, "a delay is stamped on failure")
	vrt.Observe("got", int64(got))
	if first {
		vrt.Assert(got == 7*time.Second, "the first failure is delayed by InitialInterval")
		return
	}
	var want time.Duration
	switch mk {
	case 0:
		want = prev
	case 1:
		want = prev + prev/2
	case 2:
		want = 2 * prev
	case 3:
		want = 3 * prev
	}
	if want > maxI {
		want = maxI
	}
	vrt.Assert(got >= want-1 && got <= want+1, "the k-th consecutive failure is delayed by min(previous x Multiplier, MaxInterval), fractional multipliers included")
}

// HarnessC19DelayOnErrorSeq: the whole schedule over consecutive failures of one message (the middleware reads its
// own previous stamp back from the metadata): k-th failure = min(InitialInterval x Multiplier^(k-1), MaxInterval),
// for configurations whose products leave the whole-millisecond grid.
func HarnessC19DelayOnErrorSeq() {
	type cfg struct {
		initial time.Duration
		mult    float64
		num     int64 // mult = 1 + 1/num (num == 0: integer multiplier in whole)
		whole   int64
	}
	cfgs := []cfg{
		{100 * time.Millisecond, 1.5, 2, 0},
		{time.Second, 1.25, 4, 0},
		{1500 * time.Microsecond, 2, 0, 2},
		{7 * time.Second, 3, 0, 3},
	}
	c := cfgs[vrt.Int("config", 0, 3)]
	maxI := time.Hour
	d := &DelayOnError{InitialInterval: c.initial, MaxInterval: maxI, Multiplier: c.mult}
	msg := message.NewMessage("m", nil)
	n := vrt.Int("failures", 1, 6)
	mw := d.Middleware(func(m *message.Message) ([]*message.Message, error) { return nil, errScripted })
	want := c.initial
	for k := 1; k <= n; k++ {
		_, err := mw(msg)
		vrt.Assert(err == errScripted, "the error passes through")
		got, perr := time.ParseDuration(msg.Metadata.Get(delay.DelayedForKey))
		vrt.Assert(perr == nil, "a delay is stamped on failure")
		if k > 1 {
			if c.num != 0 {
				want = want + want/time.Duration(c.num)
			} else {
				want = want * time.Duration(c.whole)
			}
			if want > maxI {
				want = maxI
			}
		}
		vrt.Assert(got >= want-time.Duration(k) && got <= want+time.Duration(k), "the k-th consecutive failure is delayed by min(InitialInterval x Multiplier^(k-1), MaxInterval)")
	}
}

// HarnessC19Throttle: handler starts never outnumber the ticks the ticker delivered.
func HarnessC19Throttle() {
	models.TickerTicks = 2
	th := NewThrottle(10, time.Second)
	starts := 0
	res := c19ArbResult("h.")
	h := func(m *message.Message) ([]*message.Message, error) {
		starts++
		vrt.Assert(starts <= models.ReadTicksSent(), "a handler starts only after a tick was delivered for it")
		return res.outs, res.err
	}
	mw := th.Middleware(h)
	for i := 0; i < 2; i++ {
		msg := message.NewMessage("m", nil)
		if vrt.Bool("m" + strconv.Itoa(i) + ".context.already.cancelled") {
			// the rate limit does not depend on the state of the message's context
			ctx, cancel := context.WithCancel(context.Background())
			cancel()
			msg.SetContext(ctx)
		}
		out, err := mw(msg)
		vrt.Assert(sameMsgs(out, res.outs) && err == res.err, "result unchanged")
	}
	vrt.Observe("starts", starts)
}

// c19Counted wraps a handler that fails its first `fails` calls.
func c19Counted(fails int, calls *int) message.HandlerFunc {
	return func(m *message.Message) ([]*message.Message, error) {
		*calls++
		if *calls <= fails {
			return nil, errScripted
		}
		return nil, nil
	}
}

// HarnessC19WithRetry: composing a simple middleware with Retry (inside or outside) does not change
// Retry's attempt count.
func HarnessC19WithRetry() {
	models.RandConst = true
	kind := vrt.Int("kind", 0, mwCount-1)
	vrt.Assume(kind != mwIgnoreOther || true)
	inside := vrt.Bool("inside") // true: Retry(X(h)); false: X(Retry(h))
	fails := vrt.Int("fails", 0, vrt.Bound("maxfails", 3))
	r := Retry{MaxRetries: 2, InitialInterval: time.Millisecond, MaxInterval: 4 * time.Millisecond, Multiplier: 2}

	bare := 0
	msg0 := message.NewMessage("m", nil)
	_, err0 := r.Middleware(c19Counted(fails, &bare))(msg0)

	calls := 0
	msg := message.NewMessage("m", nil)
	x := c19Middleware(kind)
	var chain message.HandlerFunc
	if inside {
		chain = r.Middleware(x(c19Counted(fails, &calls)))
	} else {
		chain = x(r.Middleware(c19Counted(fails, &calls)))
	}
	_, err := chain(msg)
	vrt.Observe("bare", bare)
	vrt.Observe("calls", calls)
	if kind == mwCircuitBreaker && inside {
		// an open breaker legitimately short-circuits; the property speaks of a closed one (fails < 6 keeps it closed)
	}
	if kind == mwTimeout && !inside {
		// Timeout around Retry: the deadline covers the whole retry loop and may legitimately end it early
		vrt.Assert(calls <= bare && calls >= 1, "Timeout around Retry never adds attempts")
	} else {
		vrt.Assert(calls == bare, "the attempt count under Retry is the same with and without the middleware")
		vrt.Assert((err == nil) == (err0 == nil), "success/failure is the same with and without the middleware")
	}
	vrt.Assert(msg.Context().Err() == nil, "the message context is usable after the chain")
}

// HarnessC19PanicThrough: when the handler panics, the middlewares that do not recover let the panic
// through, and the message context is still not left cancelled afterwards (the effect ends with the call).
func HarnessC19PanicThrough() {
	kind := vrt.Int("kind", 0, mwCount-1)
	msg := message.NewMessage("m", nil)
	base, cancelBase := context.WithCancel(context.Background())
	defer cancelBase()
	msg.SetContext(base)
	h := func(m *message.Message) ([]*message.Message, error) { panic("handler panic") }
	var rec any
	var err error
	func() {
		defer func() { rec = recover() }()
		_, err = c19Middleware(kind)(h)(msg)
	}()
	if kind == mwRecoverer {
		vrt.Assert(rec == nil && err != nil, "Recoverer turns the panic into an error")
	} else {
		vrt.Assert(rec != nil, "other middlewares do not swallow a panic")
	}
	vrt.Assert(msg.Context().Err() == nil, "the message context is not left cancelled after a panicking call")
	vrt.Observe("recovered", rec != nil)
}

// HarnessC19ThrottleRate (timed): after the throttle has been idle for an arbitrary time, back-to-back messages
// still start no faster than the configured rate: any three consecutive handler starts span at least one
// interval (one tick may have been waiting, never more). The ticker is the periodic model (a tick every
// interval, dropped while the previous one has not been taken).
func HarnessC19ThrottleRate() {
	models.TickerPeriodic = true
	models.TickerTicks = 9
	const interval = 50 * time.Millisecond
	th := NewThrottle(2, 2*interval)
	var stamps []time.Time
	mw := th.Middleware(func(m *message.Message) ([]*message.Message, error) {
		stamps = append(stamps, time.Now())
		return nil, nil
	})
	idle := time.Duration(vrt.Int("idle.intervals", 0, 4))*interval + time.Duration(vrt.Int("idle.offset.ms", 0, 2))*20*time.Millisecond
	time.Sleep(idle)
	for i := 0; i < 4; i++ {
		_, err := mw(message.NewMessage("m", nil))
		vrt.Assert(err == nil, "result unchanged")
	}
	if vrt.Timed() {
		for i := 0; i+2 < len(stamps); i++ {
			vrt.Assert(stamps[i+2].Sub(stamps[i]) >= interval, "handler starts are no faster than the configured rate, also after an idle period")
		}
	}
	vrt.Observe("starts", len(stamps))
}

// HarnessC19TimeoutDeadline: the deadline Timeout promises is visible during the call whatever deadline the
// message context already carries (none, an earlier one, a later one): never later than timeout after the
// call started, and never later than the one that was there.
func HarnessC19TimeoutDeadline() {
	timeout := 20 * time.Millisecond
	if vrt.Bool("long.timeout") {
		timeout = 3 * time.Second
	}
	msg := message.NewMessage("m", nil)
	var had time.Time
	hadDeadline := false
	switch vrt.Int("existing.deadline", 0, 2) {
	case 1:
		ctx, cancel := context.WithTimeout(context.Background(), 5*time.Millisecond) // sooner than either timeout
		defer cancel()
		msg.SetContext(ctx)
		had, hadDeadline = ctx.Deadline()
	case 2:
		ctx, cancel := context.WithTimeout(context.Background(), 2*time.Second) // between the two timeouts
		defer cancel()
		msg.SetContext(ctx)
		had, hadDeadline = ctx.Deadline()
	}
	before := time.Now()
	calls := 0
	h := func(m *message.Message) ([]*message.Message, error) {
		calls++
		dl, ok := m.Context().Deadline()
		vrt.Assert(ok, "Timeout: a deadline is visible during the call")
		vrt.Assert(!dl.After(time.Now().Add(timeout)), "Timeout: the visible deadline is at most the timeout away")
		vrt.Assert(!dl.Before(before.Add(timeout)) || (hadDeadline && !dl.After(had)), "Timeout: the deadline is not sooner than the timeout unless the message already had a sooner one")
		if hadDeadline {
			vrt.Assert(!dl.After(had), "Timeout never extends a deadline the message already had")
		}
		return nil, nil
	}
	_, err := Timeout(timeout)(h)(msg)
	vrt.Assert(err == nil && calls == 1, "the handler runs exactly once, result unchanged")
	dl, ok := msg.Context().Deadline()
	vrt.Assert(ok == hadDeadline && (!ok || dl.Equal(had)), "afterwards the message carries the context it had before")
	vrt.Observe("calls", calls)
}
