//verif:target components/delay/zz_verif_c20.go

package delay

import (
	"context"
	"errors"
	"strconv"
	"time"

	"github.com/ThreeDotsLabs/watermill/message"
	"github.com/ThreeDotsLabs/watermill/zzverif/vrt"
)

var errScripted = errors.New("scripted failure")

type c20Call struct {
	topic string
	msgs  []*message.Message
}
type c20Pub struct {
	calls  []c20Call
	fail   bool
	closed int
}

func (p *c20Pub) Publish(topic string, msgs ...*message.Message) error {
	p.calls = append(p.calls, c20Call{topic, append([]*message.Message(nil), msgs...)})
	if p.fail {
		return errScripted
	}
	return nil
}
func (p *c20Pub) Close() error { p.closed++; return nil }

// HarnessC20Delay: delay.Publisher stamps each message of a batch with exactly one delay chosen by
// precedence (metadata already present > delay in the message context > default generator), forwards
// the batch in one call, and publishes nothing when a message has no delay unless AllowNoDelay.
func HarnessC20Delay() {
	n := vrt.Int("batch", 1, vrt.Bound("maxbatch", 2))
	genKind := vrt.Int("gen", 0, 2) // 0 absent, 1 present, 2 failing
	allow := vrt.Bool("AllowNoDelay")
	inner := &c20Pub{fail: vrt.Bool("inner.fails")}
	// the default generator's answer depends on the message: 3s for u0, 5s for u1, 7s for the others; when it is
	// a failing generator it fails for the message with index genFailAt only
	genDelays := []Delay{For(3 * time.Second), For(5 * time.Second), For(7 * time.Second)}
	genFailAt := vrt.Int("gen.fail.at", 0, vrt.Bound("maxbatch", 2)-1)
	genCalls := 0
	cfg := PublisherConfig{AllowNoDelay: allow}
	if genKind > 0 {
		cfg.DefaultDelayGenerator = func(p DefaultDelayGeneratorParams) (Delay, error) {
			genCalls++
			idx := 2
			switch p.Message.UUID {
			case "u0":
				idx = 0
			case "u1":
				idx = 1
			}
			if genKind == 2 && idx == genFailAt {
				return Delay{}, errScripted
			}
			return genDelays[idx], nil
		}
	}
	pub, err := NewPublisher(inner, cfg)
	vrt.Assert(err == nil, "publisher created")
	msgs := make([]*message.Message, n)
	src := make([]int, n)
	ctxDelay := make([]Delay, n)
	preset := make([]string, n)
	for i := 0; i < n; i++ {
		p := "m" + strconv.Itoa(i) + "."
		m := message.NewMessage("u"+strconv.Itoa(i), nil)
		src[i] = vrt.Int(p+"src", 0, 4) // 0 none, 1 metadata preset, 2 ctx For, 3 ctx Until, 4 ctx zero Delay{}
		switch src[i] {
		case 1:
			preset[i] = vrt.Str(p + "preset")
			vrt.Assume(preset[i] != "")
			m.Metadata.Set(DelayedForKey, preset[i])
		case 2:
			ctxDelay[i] = For(time.Duration(vrt.Int(p+"for", 0, 1<<40)))
			m.SetContext(WithContext(context.Background(), ctxDelay[i]))
		case 3:
			// an instant given in a zone other than UTC (the stamp must denote the same instant)
			ctxDelay[i] = Until(time.Now().Add(time.Duration(vrt.Int(p+"until", -(1<<40), 1<<40))).In(time.FixedZone("east", 2*60*60)))
			m.SetContext(WithContext(context.Background(), ctxDelay[i]))
		case 4:
			ctxDelay[i] = Delay{} // "a zero delay" is still a delay chosen by the caller
			m.SetContext(WithContext(context.Background(), ctxDelay[i]))
		}
		if vrt.Bool(p + "also.preset") && src[i] >= 2 {
			// both metadata and context: metadata wins
			preset[i] = "5s"
			m.Metadata.Set(DelayedForKey, preset[i])
			src[i] = 1
		}
		msgs[i] = m
	}
	perr := pub.Publish("topic", msgs...)
	vrt.Observe("err", perr != nil)
	vrt.Observe("inner.calls", len(inner.calls))

	// expected outcome, message by message in order
	expectErr := false
	for i := 0; i < n && !expectErr; i++ {
		if src[i] == 0 {
			if (genKind == 2 && i == genFailAt) || (genKind == 0 && !allow) {
				expectErr = true
			}
		}
	}
	if expectErr {
		vrt.Assert(perr != nil, "no delay available (or the generator fails): an error is returned")
		vrt.Assert(len(inner.calls) == 0, "and nothing is published")
		return
	}
	vrt.Assert(len(inner.calls) == 1, "the batch is forwarded in exactly one call")
	c := inner.calls[0]
	same := c.topic == "topic" && len(c.msgs) == n
	for i := 0; same && i < n; i++ {
		if c.msgs[i] != msgs[i] {
			same = false
		}
	}
	vrt.Assert(same, "the whole batch, in order, on the same topic")
	vrt.Assert((perr != nil) == inner.fail, "the inner publisher's result is returned")
	for i := 0; i < n; i++ {
		m := msgs[i]
		df, du := m.Metadata.Get(DelayedForKey), m.Metadata.Get(DelayedUntilKey)
		switch src[i] {
		case 1:
			vrt.Assert(df == preset[i], "delay metadata already present is kept")
			vrt.Assert(du == "", "and no second stamp is added")
		case 2, 3, 4:
			vrt.Assert(df == ctxDelay[i].duration.String() && du == ctxDelay[i].time.Format(time.RFC3339), "the delay from the message context is stamped; delayed-for and delayed-until come from the same Delay")
		case 0:
			if genKind >= 1 {
				vrt.Assert(df == genDelays[i].duration.String() && du == genDelays[i].time.Format(time.RFC3339), "otherwise the delay the default generator gives for this very message is stamped")
			} else {
				vrt.Assert(df == "" && du == "", "AllowNoDelay: the message passes without a stamp")
			}
		}
	}
	vrt.Assert(pub.Close() == nil && inner.closed == 1, "Close passes through once")
}
