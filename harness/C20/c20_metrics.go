//verif:target components/metrics/zz_verif_c20.go

package metrics

import (
	"context"
	"errors"
	"sync"

	"github.com/prometheus/client_golang/prometheus"

	"github.com/ThreeDotsLabs/watermill/message"
	"github.com/ThreeDotsLabs/watermill/zzverif/models"
	"github.com/ThreeDotsLabs/watermill/zzverif/vrt"
)

var errScripted = errors.New("scripted failure")

type mPub struct {
	calls int
	fail  bool
}

func (p *mPub) Publish(topic string, msgs ...*message.Message) error {
	p.calls++
	if p.fail {
		return errScripted
	}
	return nil
}
func (p *mPub) Close() error { return nil }

// HarnessC20MetricsPublisher: the publisher decorator (applied once or twice) counts every publish call
// exactly once with the right success label and passes call and result through.
func HarnessC20MetricsPublisher() {
	reg := prometheus.NewRegistry()
	b := NewPrometheusMetricsBuilder(reg, "ns", "sub")
	inner := &mPub{fail: vrt.Bool("inner.fails")}
	var pub message.Publisher = inner
	twice := vrt.Bool("twice")
	p1, err := b.DecoratePublisher(pub)
	vrt.Assert(err == nil, "decorated")
	pub = p1
	if twice {
		p2, err := b.DecoratePublisher(pub)
		vrt.Assert(err == nil, "decorated twice (collector reused)")
		pub = p2
	}
	n := vrt.Int("calls", 1, vrt.Bound("maxcalls", 2))
	for i := 0; i < n; i++ {
		err := pub.Publish("t", message.NewMessage("m", nil))
		vrt.Assert((err != nil) == inner.fail, "the inner result passes through")
	}
	vrt.Assert(inner.calls == n, "every call reaches the inner publisher once")
	if vrt.Bool("then.a.batch.of.two") {
		// the decorator is transparent for the messages themselves: each keeps what its own context carries
		type k struct{}
		ma, mb := message.NewMessage("a", nil), message.NewMessage("b", nil)
		ma.SetContext(context.WithValue(context.Background(), k{}, "ctx-of-a"))
		mb.SetContext(context.WithValue(context.Background(), k{}, "ctx-of-b"))
		_ = pub.Publish("t", ma, mb)
		vrt.Assert(ma.Context().Value(k{}) == "ctx-of-a" && mb.Context().Value(k{}) == "ctx-of-b", "every message of a batch keeps its own context")
		n++
	}
	success := "true"
	if inner.fail {
		success = "false"
	}
	total := models.PromTotal(reg, "ns_sub_publish_time_seconds")
	vrt.Observe("total", total)
	vrt.Assert(total == n, "every publish call is counted exactly once, also when the decorator is applied twice")
	outer := "metrics.PublisherPrometheusMetricsDecorator"
	if !twice {
		outer = "metrics.mPub"
	}
	vrt.Assert(models.PromCount(reg, "ns_sub_publish_time_seconds", map[string]string{
		"handler_name": "<no handler>", "publisher_name": outer, "success": success}) == n, "with the correct success label")
}

type mSub struct {
	mu sync.Mutex
	ch chan *message.Message
}

func (s *mSub) Subscribe(ctx context.Context, topic string) (<-chan *message.Message, error) {
	return s.ch, nil
}
func (s *mSub) Close() error { close(s.ch); return nil }

// HarnessC20MetricsSubscriber: every settled received message is counted exactly once with the right
// acked label, also when the decorator is applied twice and when the message is settled after Close.
func HarnessC20MetricsSubscriber() {
	reg := prometheus.NewRegistry()
	b := NewPrometheusMetricsBuilder(reg, "ns", "sub")
	inner := &mSub{ch: make(chan *message.Message)}
	var sub message.Subscriber = inner
	s1, err := b.DecorateSubscriber(sub)
	vrt.Assert(err == nil, "decorated")
	sub = s1
	if vrt.Bool("twice") {
		s2, err := b.DecorateSubscriber(sub)
		vrt.Assert(err == nil, "decorated twice")
		sub = s2
	}
	ch, err := sub.Subscribe(context.Background(), "t")
	vrt.Assert(err == nil, "subscribed")
	m := message.NewMessage("m", nil)
	// like the messages of a real Pub/Sub, the message carries a context that ends with its subscription
	mctx, mcancel := context.WithCancel(context.Background())
	defer mcancel()
	m.SetContext(mctx)
	go func() { inner.ch <- m }()
	got := <-ch
	vrt.Assert(got == m, "the message passes through unmodified (same object)")
	republished := vrt.Bool("received.message.published.on")
	if republished {
		// a pass-through handler: the very message object that came in through the metrics subscriber decorator goes
		// out through the metrics publisher decorator
		outPub, err := b.DecoratePublisher(&mPub{})
		vrt.Assert(err == nil, "publisher decorated")
		vrt.Assert(outPub.Publish("out", got) == nil, "published on")
	}
	nack := vrt.Bool("nack")
	closeFirst := vrt.Bool("close.before.settle")
	if vrt.Bool("message.context.cancelled.before.settle") {
		mcancel()
	}
	if closeFirst {
		vrt.Assert(sub.Close() == nil, "Close passes through")
	}
	if nack {
		got.Nack()
	} else {
		got.Ack()
	}
	if !closeFirst {
		vrt.Assert(sub.Close() == nil, "Close passes through")
	}
	vrt.AtQuiescence(func() {
		label := "acked"
		if nack {
			label = "nacked"
		}
		if republished {
			vrt.Assert(models.PromTotal(reg, "ns_sub_publish_time_seconds") == 1, "every publish call is counted exactly once, also for a message that was received through the metrics subscriber")
		}
		vrt.Assert(models.PromTotal(reg, "ns_sub_subscriber_messages_received_total") == 1, "every settled received message is counted exactly once, also when decorated twice")
		vrt.Assert(models.PromCount(reg, "ns_sub_subscriber_messages_received_total", map[string]string{
			"handler_name": "<no handler>", "subscriber_name": "metrics.mSub", "acked": label}) == 1, "with the correct acked label")
	})
}

// HarnessC20MetricsHandler: the handler middleware counts every invocation once with the right success label.
func HarnessC20MetricsHandler() {
	reg := prometheus.NewRegistry()
	b := NewPrometheusMetricsBuilder(reg, "ns", "sub")
	mw := b.NewRouterMiddleware()
	outcome := vrt.Int("outcome", 0, 2) // 0 ok, 1 error, 2 panic
	h := mw.Middleware(func(m *message.Message) ([]*message.Message, error) {
		switch outcome {
		case 1:
			return nil, errScripted
		case 2:
			panic("handler panic")
		}
		return []*message.Message{m}, nil
	})
	msg := message.NewMessage("m", nil)
	var out []*message.Message
	var err error
	func() {
		defer func() { recover() }()
		out, err = h(msg)
	}()
	if outcome == 0 {
		vrt.Assert(err == nil && len(out) == 1 && out[0] == msg, "result passes through")
	}
	if outcome == 1 {
		vrt.Assert(err == errScripted, "error passes through")
	}
	total := models.PromTotal(reg, "ns_sub_handler_execution_time_seconds")
	vrt.Observe("total", total)
	vrt.Assert(total == 1, "every handler invocation is counted exactly once")
	if outcome != 2 {
		success := "true"
		if outcome == 1 {
			success = "false"
		}
		vrt.Assert(models.PromCount(reg, "ns_sub_handler_execution_time_seconds", map[string]string{"handler_name": "", "success": success}) == 1, "with the correct success label")
	}
}
