//verif:target message/zz_verif_c20.go

package message

import (
	"context"
	"strconv"

	"github.com/ThreeDotsLabs/watermill/zzverif/vrt"
)

// HarnessC20TransformPublisher: stacks of 0..3 transform publisher decorators are transparent.
func HarnessC20TransformPublisher() {
	depth := vrt.Int("depth", 0, vrt.Bound("maxdepth", 3))
	n := vrt.Int("batch", 0, vrt.Bound("maxbatch", 2))
	inner := &scriptedPublisher{outcome: func(int) int { return vrt.Int("inner.outcome", 0, 1) }}
	var pub Publisher = inner
	var seen []int
	for d := 0; d < depth; d++ {
		d := d
		p, err := MessageTransformPublisherDecorator(func(m *Message) { seen = append(seen, d) })(pub)
		vrt.Assert(err == nil, "decorated")
		pub = p
	}
	msgs := make([]*Message, n)
	for i := range msgs {
		msgs[i] = NewMessage("u"+strconv.Itoa(i), nil)
	}
	err := pub.Publish("t", msgs...)
	vrt.Observe("err", err != nil)
	vrt.Assert(len(inner.calls) == 1, "one inner call per Publish")
	c := inner.calls[0]
	same := c.topic == "t" && len(c.msgs) == n
	for i := 0; same && i < n; i++ {
		if c.msgs[i] != msgs[i] {
			same = false
		}
	}
	vrt.Assert(same, "every message passes through once and in order")
	vrt.Assert((err != nil) == (vrt.Int("inner.outcome", 0, 1) == 1), "the inner error passes through")
	vrt.Assert(len(seen) == depth*n, "each decorator sees each message exactly once")
	vrt.Assert(pub.Close() == nil && inner.closed == 1, "Close passes through once")
}

// HarnessC20TransformSubscriber: through 1..2 transform subscriber decorators, messages arrive once and in
// order, settling the received message settles the inner subscriber's message (same object), the output
// closes when the inner one does, and Close passes through once.
func HarnessC20TransformSubscriber() {
	depth := vrt.Int("depth", 1, 2)
	inner := &directSubscriber{}
	var sub Subscriber = inner
	counts := make([]int, 2)
	for d := 0; d < depth; d++ {
		d := d
		s, err := MessageTransformSubscriberDecorator(func(m *Message) { counts[d]++ })(sub)
		vrt.Assert(err == nil, "decorated")
		sub = s
	}
	ch, err := sub.Subscribe(context.Background(), "t")
	vrt.Assert(err == nil, "subscribed")
	m0, m1 := NewMessage("m0", nil), NewMessage("m1", nil)
	go func() {
		inner.chans[0] <- m0
		inner.chans[0] <- m1
	}()
	g0 := <-ch
	vrt.Assert(g0 == m0, "first message first, same object")
	if vrt.Bool("nack.first") {
		g0.Nack()
		vrt.Assert(vrt.Closed(m0.Nacked()), "settling the received message settles the inner message")
	} else {
		g0.Ack()
		vrt.Assert(vrt.Closed(m0.Acked()), "settling the received message settles the inner message")
	}
	g1 := <-ch
	vrt.Assert(g1 == m1, "second message second, same object")
	g1.Ack()
	vrt.Assert(sub.Close() == nil, "Close returns the inner result")
	_, open := <-ch
	vrt.Assert(!open, "the output channel is closed after Close")
	vrt.Assert(inner.closed, "Close reaches the inner subscriber")
	for d := 0; d < depth; d++ {
		vrt.Assert(counts[d] == 2, "each decorator sees each message exactly once")
	}
	vrt.AtQuiescence(func() {
		vrt.Assert(vrt.Live("message.(*messageTransformSubscriberDecorator)") == 0, "no pump goroutine remains after Close")
	})
}
