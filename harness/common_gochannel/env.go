//verif:target pubsub/gochannel/zz_verif_env.go

package gochannel

import (
	"context"
	"strconv"
	"sync"

	"github.com/ThreeDotsLabs/watermill"
	"github.com/ThreeDotsLabs/watermill/message"
	"github.com/ThreeDotsLabs/watermill/zzverif/vrt"
)

type ctxMark struct{}

// delivery is what a consumer recorded about one received copy.
type delivery struct {
	msg     *message.Message
	uuid    string
	payload string
	meta    string
	ctxLive bool
	ctxMine bool
	nacked  bool
}

// consumer reads from one subscription; it nacks the first `nacks` deliveries of every message, mutates
// the metadata of every copy it receives and records what it saw.
type consumer struct {
	name   string
	ch     <-chan *message.Message
	nacks  int
	got    []delivery
	mu     sync.Mutex
	closed bool
}

func settlementOf(m *message.Message) int {
	a, n := vrt.Closed(m.Acked()), vrt.Closed(m.Nacked())
	switch {
	case a && n:
		return 3
	case a:
		return 1
	case n:
		return 2
	}
	return 0
}

// loop consumes until the channel is closed (for ever on an open subscription); every delivery is checked
// inline: a message is seen again only after the previous delivery of it was nacked.
func (c *consumer) loop(marker any) {
	perUUID := map[string]int{}
	for {
		m, ok := <-c.ch
		if !ok {
			c.closed = true
			return
		}
		d := delivery{msg: m, uuid: m.UUID, payload: string(m.Payload), meta: m.Metadata.Get("k"),
			ctxLive: m.Context().Err() == nil, ctxMine: m.Context().Value(ctxMark{}) == marker}
		if n := len(c.got); n > 0 {
			vrt.Assert(settlementOf(c.got[n-1].msg) != 0, "a message becomes receivable only after the previous one was settled")
		}
		for _, old := range c.got {
			vrt.Assert(old.msg != m, "each delivery is a separate copy")
		}
		vrt.Assert(perUUID[m.UUID] <= c.nacks, "a subscription sees a published message again only after it nacked the previous delivery")
		m.Metadata.Set("k", "mutated-by-"+c.name)
		if perUUID[m.UUID] < c.nacks {
			perUUID[m.UUID]++
			d.nacked = true
			c.got = append(c.got, d)
			m.Nack()
			continue
		}
		perUUID[m.UUID]++
		c.got = append(c.got, d)
		m.Ack()
	}
}

// run consumes until the channel is closed or `want` messages have been acked.
func (c *consumer) run(want int, marker any) {
	acked := 0
	seen := map[string]int{}
	for acked < want {
		m, ok := <-c.ch
		if !ok {
			c.closed = true
			return
		}
		d := delivery{msg: m, uuid: m.UUID, payload: string(m.Payload), meta: m.Metadata.Get("k"),
			ctxLive: m.Context().Err() == nil, ctxMine: m.Context().Value(ctxMark{}) == marker}
		// the previous delivery of this subscription must be settled (one unsettled message per subscription)
		if n := len(c.got); n > 0 {
			vrt.Assert(settlementOf(c.got[n-1].msg) != 0, "a message becomes receivable only after the previous one was settled")
		}
		for _, old := range c.got {
			vrt.Assert(old.msg != m, "each delivery is a separate copy")
		}
		vrt.Assert(m.Metadata.Get("k2") == "", "a delivery carries the metadata the message had when it was published")
		_, hasFlag := m.Metadata["flag"]
		vrt.Assert(hasFlag && len(m.Metadata) == 2, "a delivery carries the complete metadata key set of the published message (also keys with empty values)")
		m.Metadata.Set("k", "mutated-by-"+c.name) // must never leak
		if seen[m.UUID] < c.nacks {
			seen[m.UUID]++
			d.nacked = true
			c.got = append(c.got, d)
			m.Nack()
			continue
		}
		c.got = append(c.got, d)
		m.Ack()
		acked++
	}
}

func newPubSub(cfg Config) *GoChannel { return NewGoChannel(cfg, watermill.NopLogger{}) }

func newMsg(i int) *message.Message {
	m := message.NewMessage("u"+strconv.Itoa(i), message.Payload("p"+strconv.Itoa(i)))
	m.Metadata.Set("k", "v"+strconv.Itoa(i))
	m.Metadata["flag"] = "" // an entry whose value is empty is an entry all the same
	return m
}

func markedCtx(marker any) context.Context {
	return context.WithValue(context.Background(), ctxMark{}, marker)
}
