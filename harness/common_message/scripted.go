//verif:target message/zz_verif_scripted.go

package message

import (
	"fmt"
	"context"
	"errors"
	"sync"

	"github.com/ThreeDotsLabs/watermill/zzverif/vrt"
)

// scripted environment shared by the harnesses of package message

var errScripted = errors.New("scripted failure")

type pubCall struct {
	topic string
	msgs  []*Message
	// settlement of the consumed message sampled inside Publish: 0 none 1 acked 2 nacked
	consumedState int
}

// scriptedPublisher records every call; outcome of the k-th call: 0 accept, 1 error, 2 panic.
type scriptedPublisher struct {
	mu       sync.Mutex
	name     string
	calls    []pubCall
	outcome  func(k int) int
	consumed *Message
	closed   int
}

func (p *scriptedPublisher) Publish(topic string, messages ...*Message) error {
	p.mu.Lock()
	k := len(p.calls)
	c := pubCall{topic: topic, msgs: append([]*Message(nil), messages...)}
	if p.consumed != nil {
		c.consumedState = settlementOf(p.consumed)
	}
	p.calls = append(p.calls, c)
	p.mu.Unlock()
	o := 0
	if p.outcome != nil {
		o = p.outcome(k)
	}
	switch o {
	case 1:
		return errScripted
	case 2:
		panic("scripted publisher panic")
	case 3:
		return context.Canceled // a context-aware publisher whose publish was aborted
	case 4:
		return fmt.Errorf("publish aborted: %w", context.Canceled)
	}
	return nil
}

func (p *scriptedPublisher) Close() error {
	p.mu.Lock()
	p.closed++
	p.mu.Unlock()
	return nil
}

func settlementOf(m *Message) int {
	a, n := vrt.Closed(m.Acked()), vrt.Closed(m.Nacked())
	switch {
	case a && n:
		return 3
	case a:
		return 1
	case n:
		return 2
	}
	return 0
}

// scriptedSubscriber hands out one channel per Subscribe call and honours the Subscriber
// contract: the channel is closed when Close is called or the subscription context ends.
type scriptedSubscriber struct {
	mu         sync.Mutex
	subs       []*scriptedSubscription
	closeCalls int
	subscribes int
	closed     bool
	failNext   bool
}

type scriptedSubscription struct {
	topic string
	ctx   context.Context
	in    chan *Message // the environment feeds messages here
	out   chan *Message
	stop  chan struct{}
	once  sync.Once
}

func (s *scriptedSubscriber) Subscribe(ctx context.Context, topic string) (<-chan *Message, error) {
	s.mu.Lock()
	defer s.mu.Unlock()
	s.subscribes++
	if s.closed || s.failNext {
		return nil, errScripted
	}
	sub := &scriptedSubscription{topic: topic, ctx: ctx, in: make(chan *Message), out: make(chan *Message), stop: make(chan struct{})}
	s.subs = append(s.subs, sub)
	go sub.pump()
	return sub.out, nil
}

func (sub *scriptedSubscription) pump() {
	defer close(sub.out)
	for {
		select {
		case m, ok := <-sub.in:
			if !ok {
				return
			}
			select {
			case sub.out <- m:
			case <-sub.stop:
				return
			case <-sub.ctx.Done():
				return
			}
		case <-sub.stop:
			return
		case <-sub.ctx.Done():
			return
		}
	}
}

func (s *scriptedSubscriber) Close() error {
	s.mu.Lock()
	s.closeCalls++
	s.closed = true
	subs := append([]*scriptedSubscription(nil), s.subs...)
	s.mu.Unlock()
	for _, sub := range subs {
		sub.once.Do(func() { close(sub.stop) })
	}
	return nil
}

// directSubscriber hands out plain channels that the environment feeds directly (no pump goroutine);
// Close closes them. For harnesses that do not exercise subscription cancellation.
type directSubscriber struct {
	mu     sync.Mutex
	chans  []chan *Message
	closed bool
}

func (s *directSubscriber) Subscribe(ctx context.Context, topic string) (<-chan *Message, error) {
	s.mu.Lock()
	defer s.mu.Unlock()
	if s.closed {
		return nil, errScripted
	}
	ch := make(chan *Message)
	s.chans = append(s.chans, ch)
	return ch, nil
}

func (s *directSubscriber) Close() error {
	s.mu.Lock()
	defer s.mu.Unlock()
	if !s.closed {
		s.closed = true
		for _, c := range s.chans {
			close(c)
		}
	}
	return nil
}

// countingSubscriber counts Subscribe calls and hands out channels closed on ctx cancel / Close.
type countingSubscriber struct {
	directSubscriber
	subscribes int
	ctxs       []context.Context
	delivered  []*Message    // messages the Router's side actually took from the subscription
	entered    chan struct{} // closed (if non-nil) when Subscribe is first entered
	gate       chan struct{} // Subscribe waits for this (if non-nil) before returning
}

func (s *countingSubscriber) Subscribe(ctx context.Context, topic string) (<-chan *Message, error) {
	s.mu.Lock()
	s.subscribes++
	s.ctxs = append(s.ctxs, ctx)
	first := s.subscribes == 1
	s.mu.Unlock()
	if first && s.entered != nil {
		close(s.entered)
	}
	if s.gate != nil {
		<-s.gate
	}
	ch, err := s.directSubscriber.Subscribe(ctx, topic)
	if err != nil {
		return nil, err
	}
	// honour the Subscriber contract: the channel is closed when the subscription context ends
	out := make(chan *Message)
	go func() {
		defer close(out)
		for {
			select {
			case m, ok := <-ch:
				if !ok {
					return
				}
				select {
				case out <- m:
					s.mu.Lock()
					s.delivered = append(s.delivered, m)
					s.mu.Unlock()
				case <-ctx.Done():
					return
				}
			case <-ctx.Done():
				return
			}
		}
	}()
	return out, nil
}

