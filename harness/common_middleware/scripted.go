//verif:target message/router/middleware/zz_verif_scripted.go

package middleware

import (
	"errors"

	"github.com/ThreeDotsLabs/watermill/message"
	"github.com/ThreeDotsLabs/watermill/zzverif/vrt"
)

var errScripted = errors.New("scripted failure")

type pubCall struct {
	topic string
	msgs  []*message.Message
}

// recPublisher records calls; the k-th call fails when fail(k) says so.
type recPublisher struct {
	calls  []pubCall
	fail   func(k int) bool
	closed int
}

func (p *recPublisher) Publish(topic string, msgs ...*message.Message) error {
	k := len(p.calls)
	p.calls = append(p.calls, pubCall{topic, append([]*message.Message(nil), msgs...)})
	if p.fail != nil && p.fail(k) {
		return errScripted
	}
	return nil
}

func (p *recPublisher) Close() error { p.closed++; return nil }

func settlementOf(m *message.Message) int {
	a, n := vrt.Closed(m.Acked()), vrt.Closed(m.Nacked())
	switch {
	case a && n:
		return 3
	case a:
		return 1
	case n:
		return 2
	}
	return 0
}

func sameMsgs(a, b []*message.Message) bool {
	if len(a) != len(b) {
		return false
	}
	for i := range a {
		if a[i] != b[i] {
			return false
		}
	}
	return true
}
