//verif:target internal/zz_verif_selftest_sched.go

package internal

import (
	"context"
	"sync"
	"time"

	"github.com/ThreeDotsLabs/watermill/zzverif/vrt"
)

// Scheduler self-tests: tiny concurrent programs whose complete set of possible outcomes is known.
// The engine must reach exactly the expected outcomes (spec.json: expect_reach) over all schedules.

// two senders on one unbuffered channel: either order
func HarnessSchedTwoSenders() {
	ch := make(chan int)
	go func() { ch <- 1 }()
	go func() { ch <- 2 }()
	a, b := <-ch, <-ch
	if a == 1 && b == 2 {
		vrt.Reach("1-2")
	} else if a == 2 && b == 1 {
		vrt.Reach("2-1")
	} else {
		vrt.Reach("impossible")
	}
}

// select with two ready channels picks either; default only when none is ready
func HarnessSchedSelect() {
	a, b := make(chan int, 1), make(chan int, 1)
	a <- 1
	b <- 2
	select {
	case <-a:
		vrt.Reach("a")
	case <-b:
		vrt.Reach("b")
	default:
		vrt.Reach("default")
	}
	c := make(chan int)
	select {
	case <-c:
		vrt.Reach("c")
	default:
		vrt.Reach("none-ready")
	}
}

// a lost update is impossible under a mutex and possible without synchronisation (reported as a race and,
// after refinement, as the outcome 1)
func HarnessSchedMutexCounter() {
	var mu sync.Mutex
	var wg sync.WaitGroup
	n := 0
	for i := 0; i < 2; i++ {
		wg.Add(1)
		go func() {
			defer wg.Done()
			mu.Lock()
			v := n
			n = v + 1
			mu.Unlock()
		}()
	}
	wg.Wait()
	if n == 2 {
		vrt.Reach("two")
	} else {
		vrt.Reach("lost-update")
	}
}

func HarnessSchedRacyCounter() {
	var wg sync.WaitGroup
	n := 0
	for i := 0; i < 2; i++ {
		wg.Add(1)
		go func() {
			defer wg.Done()
			v := n
			n = v + 1
		}()
	}
	wg.Wait()
	if n == 2 {
		vrt.Reach("two")
	} else {
		vrt.Reach("lost-update")
	}
}

// RWMutex writer preference: a reader arriving while a writer waits is held back, so the classic
// read-lock recursion with an intervening writer can deadlock
func HarnessSchedRWPreference() {
	var rw sync.RWMutex
	var wg sync.WaitGroup
	rw.RLock()
	wg.Add(1)
	go func() {
		defer wg.Done()
		rw.Lock()
		rw.Unlock()
	}()
	done := make(chan struct{})
	go func() {
		vrt.MayBlock()
		rw.RLock() // blocks for ever if the writer announced itself first
		rw.RUnlock()
		close(done)
	}()
	select {
	case <-done:
		vrt.Reach("second-reader-got-in")
		rw.RUnlock()
		wg.Wait()
	default:
		vrt.Reach("second-reader-not-yet")
		rw.RUnlock()
		wg.Wait()
	}
}

// cancelling a parent context cancels the child; cancelling the child leaves the parent alive
func HarnessSchedContext() {
	parent, cancelP := context.WithCancel(context.Background())
	child, cancelC := context.WithCancel(parent)
	cancelC()
	if parent.Err() == nil && child.Err() != nil {
		vrt.Reach("child-only")
	}
	child2, cancel2 := context.WithCancel(parent)
	defer cancel2()
	go cancelP()
	<-child2.Done()
	if parent.Err() != nil {
		vrt.Reach("parent-cancels-child")
	}
}

// buffered channel: FIFO, close after send still delivers
func HarnessSchedBuffered() {
	ch := make(chan int, 2)
	go func() {
		ch <- 1
		ch <- 2
		close(ch)
	}()
	sum, n := 0, 0
	first := 0
	for v := range ch {
		if n == 0 {
			first = v
		}
		sum += v
		n++
	}
	if first == 1 && sum == 3 && n == 2 {
		vrt.Reach("fifo")
	} else {
		vrt.Reach("broken")
	}
}

// Timed semantics (run with --timed; without it both orders of the two sleepers and both select branches are
// reachable): computation takes no time, timers fire exactly when due, the earliest first.
func HarnessSchedTimed() {
	t0 := time.Now()
	var mu sync.Mutex
	var order []int
	done := make(chan struct{}, 2)
	go func() {
		time.Sleep(20 * time.Millisecond)
		mu.Lock()
		order = append(order, 2)
		mu.Unlock()
		done <- struct{}{}
	}()
	go func() {
		time.Sleep(10 * time.Millisecond)
		mu.Lock()
		order = append(order, 1)
		mu.Unlock()
		done <- struct{}{}
	}()
	<-done
	<-done
	if order[0] == 1 {
		vrt.Reach("short-sleeper-first")
	} else {
		vrt.Reach("long-sleeper-first")
	}
	ctx, cancel := context.WithTimeout(context.Background(), 50*time.Millisecond)
	defer cancel()
	select {
	case <-ctx.Done():
		vrt.Reach("deadline-first")
	case <-time.After(2 * time.Second):
		vrt.Reach("after-first")
	}
	if time.Since(t0) == 70*time.Millisecond {
		vrt.Reach("elapsed-70ms")
	} else {
		vrt.Reach("elapsed-other")
	}
	tm := time.After(time.Hour)
	select {
	case <-tm:
		vrt.Reach("hour-timer-ready-at-once")
	default:
		vrt.Reach("hour-timer-not-yet")
	}
	// callback timers: Reset postpones, Stop prevents
	fired := 0
	bump := func() {
		mu.Lock()
		fired++
		mu.Unlock()
	}
	read := func() int {
		mu.Lock()
		defer mu.Unlock()
		return fired
	}
	t1 := time.AfterFunc(10*time.Millisecond, bump)
	t1.Reset(30 * time.Millisecond)
	time.Sleep(20 * time.Millisecond)
	if read() == 0 {
		vrt.Reach("reset-postponed")
	} else {
		vrt.Reach("reset-ignored")
	}
	time.Sleep(20 * time.Millisecond)
	if read() == 1 {
		vrt.Reach("fired-once")
	} else {
		vrt.Reach("fired-other")
	}
	t2 := time.AfterFunc(10*time.Millisecond, bump)
	if t2.Stop() {
		vrt.Reach("stop-was-in-time")
	}
	time.Sleep(20 * time.Millisecond)
	if read() == 1 {
		vrt.Reach("stopped-timer-silent")
	} else {
		vrt.Reach("stopped-timer-fired")
	}
}
