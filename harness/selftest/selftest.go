//verif:target internal/zz_verif_selftest.go

// Selftest (lives in package internal so that go test has a real directory): small Go programs whose observable results (vrt.Observe) are computed by the
// symbolic interpreter and by the natively compiled code; both must agree (translation validation of
// the SSA executor itself, independent of watermill).
package internal

import (
	"encoding/json"
	"errors"
	"fmt"
	"sort"
	"strconv"
	"strings"
	"sync"

	"github.com/ThreeDotsLabs/watermill/zzverif/vrt"
)

type shape interface{ Area() int }
type rect struct{ w, h int }
type sq struct{ s int }

func (r rect) Area() int { return r.w * r.h }
func (s *sq) Area() int  { return s.s * s.s }

type node struct {
	val  int
	next *node
}

func namedResult(fail bool) (out int, err error) {
	defer func() {
		if r := recover(); r != nil {
			out = -1
			err = fmt.Errorf("recovered: %v", r)
		}
	}()
	defer func() { out += 10 }()
	if fail {
		panic("boom")
	}
	return 5, nil
}

func HarnessSelfDefer() {
	order := ""
	func() {
		for i := 0; i < 3; i++ {
			defer func(k int) { order += strconv.Itoa(k) }(i)
		}
	}()
	vrt.Observe("defer.order", order)
	a, e1 := namedResult(false)
	b, e2 := namedResult(true)
	vrt.Observe("named.ok", a)
	vrt.Observe("named.panic", b)
	vrt.Observe("named.err", e1 == nil && e2 != nil && e2.Error() == "recovered: boom")
	var recovered any = "unset"
	func() {
		defer func() { recovered = recover() }()
		panic(nil)
	}()
	vrt.Observe("panic.nil.recovered.nonnil", recovered != nil)
	nested := ""
	func() {
		defer func() {
			r := recover()
			nested += fmt.Sprint("outer:", r)
		}()
		defer func() {
			panic("second")
		}()
		panic("first")
	}()
	vrt.Observe("nested", nested)
}

func HarnessSelfClosures() {
	var fs []func() int
	for i := 0; i < 3; i++ {
		fs = append(fs, func() int { return i * 10 }) // go.mod says go 1.21: one variable per loop
	}
	s := 0
	for _, f := range fs {
		s += f()
	}
	vrt.Observe("loopvar.sum", s)
	counter := func() func() int {
		c := 0
		return func() int { c++; return c }
	}()
	counter()
	counter()
	vrt.Observe("counter", counter())
	r := rect{2, 3}
	area := r.Area // bound method value copies the receiver
	r.w = 100
	vrt.Observe("bound", area())
	q := &sq{4}
	parea := q.Area
	q.s = 5
	vrt.Observe("bound.ptr", parea())
}

func HarnessSelfSlices() {
	a := make([]int, 3, 10)
	b := append(a, 7)
	c := append(a, 9) // shares the backing array with b
	vrt.Observe("alias", b[3])
	vrt.Observe("c3", c[3])
	d := append(a[:1], a[2:]...)
	vrt.Observe("len.d", len(d))
	full := []int{1, 2, 3}
	g := append(full, 4)
	g[0] = 99
	vrt.Observe("noalias", full[0])
	var nilS []string
	nilS = append(nilS, "x")
	vrt.Observe("nil.append", len(nilS))
	m := [][]int{{1}, {2, 3}}
	m[1] = append(m[1], 4)
	vrt.Observe("nested", len(m[1])+m[1][2])
	cp := make([]int, 2)
	n := copy(cp, full)
	vrt.Observe("copy", n*100+cp[1])
	s3 := full[1:2:2]
	s3 = append(s3, 50)
	vrt.Observe("cap.limited", full[2])
	by := []byte("héllo")
	vrt.Observe("bytes.len", len(by))
	vrt.Observe("string.back", string(by[:1]))
}

func HarnessSelfMaps() {
	m := map[string]int{}
	m["a"]++
	m["b"] += 2
	m["a"] += 5
	v, ok := m["zz"]
	vrt.Observe("missing", fmt.Sprint(v, ok))
	delete(m, "b")
	vrt.Observe("len", len(m))
	keys := []string{}
	for k := range map[string]bool{"x": true} {
		keys = append(keys, k)
	}
	vrt.Observe("range1", strings.Join(keys, ","))
	type key struct {
		a int
		b string
	}
	sm := map[key]string{{1, "p"}: "one"}
	sm[key{1, "p"}] = "uno"
	sm[key{2, "p"}] = "dos"
	vrt.Observe("structkey", sm[key{1, "p"}]+strconv.Itoa(len(sm)))
	var nm map[string]int
	vrt.Observe("nilmap.read", nm["q"])
	im := map[any]int{1: 10, "1": 20}
	vrt.Observe("anykey", im[1]+im["1"])
	mm := map[string][]int{}
	mm["k"] = append(mm["k"], 1, 2)
	vrt.Observe("mapslice", len(mm["k"]))
}

func HarnessSelfInterfaces() {
	shapes := []shape{rect{2, 5}, &sq{3}}
	total := 0
	desc := ""
	for _, s := range shapes {
		total += s.Area()
		switch x := s.(type) {
		case rect:
			desc += "rect" + strconv.Itoa(x.w)
		case *sq:
			desc += "sq" + strconv.Itoa(x.s)
		}
	}
	vrt.Observe("area", total)
	vrt.Observe("desc", desc)
	var e error
	vrt.Observe("nil.err", e == nil)
	var p *sq
	var sh shape = p
	vrt.Observe("typed.nil", sh == nil)
	e1 := errors.New("x")
	e2 := fmt.Errorf("wrap: %w", e1)
	vrt.Observe("errors.is", errors.Is(e2, e1))
	vrt.Observe("err.text", e2.Error())
	_, isStr := any(3).(string)
	vrt.Observe("assert.fail", isStr)
	vrt.Observe("fmtT", fmt.Sprintf("%T %T", rect{}, &sq{}))
	vrt.Observe("sprintf", fmt.Sprintf("%s-%d-%v-%q", "a", 42, true, "q"))
}

func HarnessSelfStructs() {
	type inner struct{ x, y int }
	type outer struct {
		in  inner
		arr [2]inner
		p   *inner
	}
	o := outer{in: inner{1, 2}}
	o2 := o // value copy
	o2.in.x = 9
	o2.arr[1].y = 7
	o.p = &o.in
	o.p.y = 5
	vrt.Observe("copy", o.in.x*100+o2.in.x*10+o.in.y)
	vrt.Observe("arr", o.arr[1].y+o2.arr[1].y)
	l := &node{1, &node{2, &node{3, nil}}}
	sum := 0
	for n := l; n != nil; n = n.next {
		sum += n.val
	}
	vrt.Observe("list", sum)
	vrt.Observe("eq", inner{1, 2} == inner{1, 2})
	xs := []inner{{3, 1}, {1, 2}, {2, 3}}
	keys := []string{"c", "a", "b"}
	sort.Strings(keys)
	for i := 0; i < len(xs); i++ {
		for j := i + 1; j < len(xs); j++ {
			if xs[j].x < xs[i].x {
				xs[i], xs[j] = xs[j], xs[i]
			}
		}
	}
	vrt.Observe("sort.strings", strings.Join(keys, ""))
	vrt.Observe("sorted", xs[0].y*100+xs[1].y*10+xs[2].y)
}

func HarnessSelfArith() {
	var u8 uint8 = 250
	u8 += 10
	vrt.Observe("wrap.u8", int(u8))
	var i32 int32 = 1 << 30
	i32 *= 4
	vrt.Observe("wrap.i32", int(i32))
	vrt.Observe("div", -7/2)
	vrt.Observe("rem", -7%3)
	vrt.Observe("shift", 1<<10>>3)
	x := 0x0f
	vrt.Observe("bits", x&^0x5|0x40^0x3)
	f := 3.7
	vrt.Observe("float", int(f*2))
	vrt.Observe("atoi", func() int { n, _ := strconv.Atoi("123"); return n + 1 }())
	vrt.Observe("cmp", "abc" < "abd" && !("b" < "a"))
	vrt.Observe("concat", "x"+strconv.Itoa(-12)+strings.TrimLeft("**y", "*"))
}

func HarnessSelfChannels() {
	ch := make(chan int, 2)
	ch <- 1
	ch <- 2
	sel := ""
	select {
	case ch <- 3:
		sel = "sent"
	default:
		sel = "full"
	}
	vrt.Observe("select.default", sel)
	close(ch)
	s := 0
	for v := range ch {
		s += v
	}
	_, ok := <-ch
	vrt.Observe("drain", s)
	vrt.Observe("closed.ok", ok)
	var wg sync.WaitGroup
	var mu sync.Mutex
	total := 0
	for i := 1; i <= 3; i++ {
		i := i
		wg.Add(1)
		go func() {
			defer wg.Done()
			mu.Lock()
			total += i
			mu.Unlock()
		}()
	}
	wg.Wait()
	vrt.Observe("goroutines", total)
	done := make(chan struct{})
	res := make(chan string)
	go func() {
		select {
		case <-done:
			res <- "done"
		}
	}()
	close(done)
	vrt.Observe("handoff", <-res)
	var once sync.Once
	n := 0
	for i := 0; i < 3; i++ {
		once.Do(func() { n++ })
	}
	vrt.Observe("once", n)
	recovered := ""
	func() {
		defer func() { recovered = fmt.Sprint(recover()) }()
		var nilch chan int
		close(nilch)
	}()
	vrt.Observe("close.nil", recovered)
}

type wire struct {
	S string
	B []byte
}

// jsonProbe: a string field survives encoding/json only when it is valid UTF-8; a []byte field always does.
func jsonProbe(label string, want []byte) int {
	b := vrt.Bytes(label, len(want))
	vrt.Assume(len(b) == len(want))
	for i := range want {
		vrt.Assume(b[i] == want[i])
	}
	in := wire{S: string(b), B: b}
	enc, err := json.Marshal(in)
	if err != nil {
		return -1
	}
	var out wire
	if json.Unmarshal(enc, &out) != nil {
		return -2
	}
	r := 0
	if out.S == in.S {
		r += 1
	}
	if string(out.B) == string(in.B) {
		r += 2
	}
	return r
}

func HarnessSelfJSON() {
	vrt.Observe("ascii", jsonProbe("p0", []byte{0x41, 0x42}))
	vrt.Observe("two-byte", jsonProbe("p1", []byte{0xC3, 0xA9}))
	vrt.Observe("c1fe", jsonProbe("p2", []byte{0xC1, 0xFE}))
	vrt.Observe("overlong3", jsonProbe("p3", []byte{0xE0, 0x80, 0x80}))
	vrt.Observe("e0a080", jsonProbe("p4", []byte{0xE0, 0xA0, 0x80}))
	vrt.Observe("surrogate", jsonProbe("p5", []byte{0xED, 0xA0, 0x80}))
	vrt.Observe("ed9fbf", jsonProbe("p6", []byte{0xED, 0x9F, 0xBF}))
	vrt.Observe("f0908080", jsonProbe("p7", []byte{0xF0, 0x90, 0x80, 0x80}))
	vrt.Observe("overlong4", jsonProbe("p8", []byte{0xF0, 0x8F, 0x80, 0x80}))
	vrt.Observe("beyond", jsonProbe("p9", []byte{0xF4, 0x90, 0x80, 0x80}))
	vrt.Observe("max", jsonProbe("p10", []byte{0xF4, 0x8F, 0xBF, 0xBF}))
	vrt.Observe("lone-cont", jsonProbe("p11", []byte{0x80}))
	vrt.Observe("truncated2", jsonProbe("p12", []byte{0xC3}))
	vrt.Observe("truncated3", jsonProbe("p13", []byte{0xE1, 0x80}))
	vrt.Observe("mixed", jsonProbe("p14", []byte{0x41, 0xC3, 0xA9, 0x42, 0xFF}))
}
