//verif:target zzverif/models/context.go

package models

import (
	"context"
	"time"

	"github.com/ThreeDotsLabs/watermill/zzverif/vrt"
)

// ctx is the model of every context the code under test can build: a tree of
// nodes; cancellation closes the done channels of a whole subtree in one
// atomic visible step. Deadlines are timers that may fire at any moment.
type ctx struct {
	parent *ctx
	done   chan struct{} // nil for Background/TODO and WithValue-of-background chains
	own    bool          // this node owns done (WithCancel/WithTimeout); otherwise it shares the parent's
	err    error
	kids   []*ctx

	hasVal   bool
	key, val any

	hasDeadline bool
	deadline    time.Time
}

var background = &ctx{}

func (c *ctx) Deadline() (time.Time, bool) {
	for n := c; n != nil; n = n.parent {
		if n.hasDeadline {
			return n.deadline, true
		}
	}
	return time.Time{}, false
}

func (c *ctx) Done() <-chan struct{} { return c.done }

func (c *ctx) Err() error { return ctxErr(c) }

//verif:atomic
func ctxErr(c *ctx) error {
	for n := c; n != nil; n = n.parent {
		if n.own {
			return n.err
		}
	}
	return nil
}

func (c *ctx) Value(key any) any {
	for n := c; n != nil; n = n.parent {
		if n.hasVal && n.key == key {
			return n.val
		}
	}
	return nil
}

func asCtx(parent context.Context) *ctx {
	if parent == nil {
		panic("cannot create context from nil parent")
	}
	p, ok := parent.(*ctx)
	if !ok {
		panic("verif: context model supports only contexts created through package context")
	}
	return p
}

//verif:model context.Background context.TODO
func Background() context.Context { return background }

//verif:model context.WithValue
func WithValue(parent context.Context, key, val any) context.Context {
	p := asCtx(parent)
	if key == nil {
		panic("nil key")
	}
	return &ctx{parent: p, done: p.done, hasVal: true, key: key, val: val}
}

//verif:model context.WithoutCancel
func WithoutCancel(parent context.Context) context.Context {
	p := asCtx(parent)
	return &ctx{parent: &ctx{parent: p, own: true}}
}

func newCancel(p *ctx) *ctx {
	c := &ctx{parent: p, done: make(chan struct{}), own: true}
	register(c)
	return c
}

// register links c below its nearest cancellable ancestor, or cancels it at once
// when that ancestor is already cancelled.
//
//verif:atomic
func register(c *ctx) {
	for n := c.parent; n != nil; n = n.parent {
		if n.own {
			if n.done == nil {
				return // WithoutCancel barrier
			}
			if n.err != nil {
				cancelTree(c, n.err)
				return
			}
			n.kids = append(n.kids, c)
			return
		}
	}
}

func cancelTree(c *ctx, err error) {
	if c.err != nil {
		return
	}
	c.err = err
	close(c.done)
	for _, k := range c.kids {
		cancelTree(k, err)
	}
	c.kids = nil
}

//verif:atomic
func cancelCtx(c *ctx, err error) {
	if c.err != nil {
		return
	}
	cancelTree(c, err)
	// unlink from the parent
	for n := c.parent; n != nil; n = n.parent {
		if n.own {
			for i, k := range n.kids {
				if k == c {
					n.kids = append(n.kids[:i:i], n.kids[i+1:]...)
					break
				}
			}
			return
		}
	}
}

//verif:model context.WithCancel
func WithCancel(parent context.Context) (context.Context, context.CancelFunc) {
	c := newCancel(asCtx(parent))
	return c, func() { cancelCtx(c, context.Canceled) }
}

//verif:model context.WithDeadline
func WithDeadline(parent context.Context, d time.Time) (context.Context, context.CancelFunc) {
	if cur, ok := parent.Deadline(); ok && cur.Before(d) {
		// the parent's deadline is sooner: it stays the effective one (as in package context)
		return WithCancel(parent)
	}
	c := newCancel(asCtx(parent))
	c.hasDeadline = true
	c.deadline = d
	// the deadline may pass at any moment (arbitrary timer); the watcher ends when c is cancelled
	if vrt.Timed() {
		// timed runs: the deadline is a timer like any other (it moves the clock to the deadline when it fires)
		left := time.Until(d)
		go func() {
			select {
			case <-timerChan(left):
				cancelCtx(c, context.DeadlineExceeded)
			case <-c.done:
			}
		}()
		return c, func() { cancelCtx(c, context.Canceled) }
	}
	go func() {
		timer := make(chan struct{}, 1)
		timer <- struct{}{}
		select {
		case <-timer:
			cancelCtx(c, context.DeadlineExceeded)
		case <-c.done:
		}
	}()
	return c, func() { cancelCtx(c, context.Canceled) }
}

//verif:model context.WithTimeout
func WithTimeout(parent context.Context, d time.Duration) (context.Context, context.CancelFunc) {
	return WithDeadline(parent, time.Now().Add(d))
}

var _ = vrt.Symbolic
