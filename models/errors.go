//verif:target zzverif/models/errors.go

package models

import "github.com/ThreeDotsLabs/watermill/zzverif/vrt"

// Is models errors.Is (and github.com/pkg/errors.Is, which forwards to it).
//
//verif:model errors.Is
func Is(err, target error) bool {
	if err == nil || target == nil {
		return err == target
	}
	return is(err, target)
}

func is(err, target error) bool {
	for {
		if err == target {
			return true
		}
		if x, ok := err.(interface{ Is(error) bool }); ok && x.Is(target) {
			return true
		}
		switch x := err.(type) {
		case interface{ Unwrap() error }:
			err = x.Unwrap()
			if err == nil {
				return false
			}
		case interface{ Unwrap() []error }:
			for _, e := range x.Unwrap() {
				if is(e, target) {
					return true
				}
			}
			return false
		default:
			return false
		}
	}
}

// As models errors.As: vrt.AssignIfType does the reflective part (is err's dynamic type
// assignable to *target; if so store it).
//
//verif:model errors.As
func As(err error, target any) bool {
	if err == nil {
		return false
	}
	for {
		if vrt.AssignIfType(err, target) {
			return true
		}
		if x, ok := err.(interface{ As(any) bool }); ok && x.As(target) {
			return true
		}
		switch x := err.(type) {
		case interface{ Unwrap() error }:
			err = x.Unwrap()
			if err == nil {
				return false
			}
		case interface{ Unwrap() []error }:
			for _, e := range x.Unwrap() {
				if e != nil && As(e, target) {
					return true
				}
			}
			return false
		default:
			return false
		}
	}
}

//verif:model errors.Unwrap
func Unwrap(err error) error {
	u, ok := err.(interface{ Unwrap() error })
	if !ok {
		return nil
	}
	return u.Unwrap()
}
