//verif:target zzverif/models/fmt.go

package models

import (
	"io"
	"strconv"

	"github.com/ThreeDotsLabs/watermill/zzverif/vrt"
)

func isFlag(c byte) bool {
	return c == '+' || c == '#' || c == '-' || c == ' ' || c == '.' || (c >= '0' && c <= '9') || c == '[' || c == ']' || c == '*'
}

// Sprintf models fmt.Sprintf for the verbs the code under test uses (%s %v %d %q %T %w %x of
// strings, errors, Stringers, integers and booleans); anything else renders as an opaque token.
//
//verif:model fmt.Sprintf
func Sprintf(format string, a ...any) string {
	out := ""
	argi := 0
	i := 0
	lit := 0
	for i < len(format) {
		if format[i] != '%' {
			i++
			continue
		}
		out += format[lit:i]
		i++
		for i < len(format) && isFlag(format[i]) {
			i++
		}
		if i >= len(format) {
			out += "%!(NOVERB)"
			lit = i
			break
		}
		verb := format[i]
		i++
		lit = i
		if verb == '%' {
			out += "%"
			continue
		}
		if argi >= len(a) {
			out += "%!" + string(rune(verb)) + "(MISSING)"
			continue
		}
		out += formatArg(verb, a[argi])
		argi++
	}
	out += format[lit:]
	return out
}

func formatArg(verb byte, v any) string {
	if verb == 'T' {
		return vrt.TypeName(v)
	}
	switch x := v.(type) {
	case nil:
		return "<nil>"
	case string:
		if verb == 'q' {
			return strconv.Quote(x)
		}
		return x
	case error:
		return x.Error()
	case interface{ String() string }:
		return x.String()
	case int:
		return strconv.Itoa(x)
	case int64:
		return strconv.FormatInt(x, 10)
	case int32:
		return strconv.Itoa(int(x))
	case uint:
		return strconv.Itoa(int(x))
	case uint64:
		return strconv.Itoa(int(x))
	case uint32:
		return strconv.Itoa(int(x))
	case bool:
		if x {
			return "true"
		}
		return "false"
	case []byte:
		return string(x)
	}
	return vrt.Opaque(v)
}

type fmtError struct{ s string }

func (e *fmtError) Error() string { return e.s }

type wrapError struct {
	msg string
	err error
}

func (e *wrapError) Error() string { return e.msg }
func (e *wrapError) Unwrap() error { return e.err }

//verif:model fmt.Errorf
func Errorf(format string, a ...any) error {
	msg := Sprintf(format, a...)
	// locate the operand of the first %w
	argi := 0
	i := 0
	for i < len(format) {
		if format[i] != '%' {
			i++
			continue
		}
		i++
		for i < len(format) && isFlag(format[i]) {
			i++
		}
		if i >= len(format) {
			break
		}
		verb := format[i]
		i++
		if verb == '%' {
			continue
		}
		if verb == 'w' && argi < len(a) {
			if err, ok := a[argi].(error); ok {
				return &wrapError{msg, err}
			}
		}
		argi++
	}
	return &fmtError{msg}
}

//verif:model fmt.Sprint
func Sprint(a ...any) string {
	out := ""
	prevString := true
	for i, v := range a {
		_, isString := v.(string)
		if i > 0 && !isString && !prevString {
			out += " "
		}
		out += formatArg('v', v)
		prevString = isString
	}
	return out
}

//verif:model fmt.Sprintln
func Sprintln(a ...any) string {
	out := ""
	for i, v := range a {
		if i > 0 {
			out += " "
		}
		out += formatArg('v', v)
	}
	return out + "\n"
}

//verif:model fmt.Println fmt.Print
func Println(a ...any) (int, error) { return 0, nil }

//verif:model fmt.Printf
func Printf(format string, a ...any) (int, error) { return 0, nil }

//verif:model fmt.Fprintf
func Fprintf(w io.Writer, format string, a ...any) (int, error) { return 0, nil }

//verif:model fmt.Fprintln fmt.Fprint
func Fprintln(w io.Writer, a ...any) (int, error) { return 0, nil }
