//verif:target zzverif/models/hash.go

package models

import (
	"hash"

	"github.com/ThreeDotsLabs/watermill/zzverif/vrt"
)

// modelHash stands for hash/adler32 and crypto/sha256: it accumulates the written bytes; Sum returns
//   adler32: 4 bytes that are an (uninterpreted, possibly colliding) function of the byte sequence,
//   sha256 : an injective encoding of the byte sequence (assumption: SHA-256 is collision free).
// The hash functions' internals are outside every claim.
type modelHash struct {
	kind string
	data []byte
}

func (h *modelHash) Write(p []byte) (int, error) {
	h.data = append(h.data, p...)
	return len(p), nil
}
func (h *modelHash) Sum(b []byte) []byte { return append(b, vrt.HashSum(h.kind, h.data)...) }
func (h *modelHash) Reset()              { h.data = nil }
func (h *modelHash) Size() int {
	if h.kind == "adler32" {
		return 4
	}
	return 32
}
func (h *modelHash) BlockSize() int { return 64 }
func (h *modelHash) Sum32() uint32  { return 0 }

//verif:model hash/adler32.New
func AdlerNew() hash.Hash32 { return &modelHash{kind: "adler32"} }

//verif:model crypto/sha256.New
func Sha256New() hash.Hash { return &modelHash{kind: "sha256"} }
