//verif:target zzverif/models/json.go

package models

import (
	"encoding/json"
	"io"
)

// Streaming JSON API on top of the abstract codec (json.Marshal / json.Unmarshal are engine intrinsics: a value is
// one opaque token byte). An Encoder writes the token followed by a newline; a Decoder reads its source to the end
// and decodes the first value of what it has buffered, leaving the rest for the next Decode.

var (
	decoderSrc = map[*json.Decoder]io.Reader{}
	decoderBuf = map[*json.Decoder][]byte{}
	encoderDst = map[*json.Encoder]io.Writer{}
)

// jsonDecodeFirst is an engine intrinsic: decodes the first JSON value of data into v.
func jsonDecodeFirst(data []byte, v any) (int, error) { return 0, nil }

//verif:model encoding/json.NewDecoder
func NewDecoder(r io.Reader) *json.Decoder {
	d := new(json.Decoder)
	decoderSrc[d] = r
	return d
}

//verif:model (*encoding/json.Decoder).Decode
func DecoderDecode(d *json.Decoder, v any) error {
	r := decoderSrc[d]
	buf := decoderBuf[d]
	tmp := make([]byte, 16)
	for i := 0; i < 8; i++ {
		n, err := r.Read(tmp)
		buf = append(buf, tmp[:n]...)
		if err != nil || n == 0 {
			break
		}
	}
	if len(buf) == 0 {
		return io.EOF
	}
	used, err := jsonDecodeFirst(buf, v)
	if err != nil {
		return err
	}
	decoderBuf[d] = buf[used:]
	return nil
}

//verif:model encoding/json.NewEncoder
func NewEncoder(w io.Writer) *json.Encoder {
	e := new(json.Encoder)
	encoderDst[e] = w
	return e
}

//verif:model (*encoding/json.Encoder).Encode
func EncoderEncode(e *json.Encoder, v any) error {
	b, err := json.Marshal(v)
	if err != nil {
		return err
	}
	b = append(b, '\n')
	_, err = encoderDst[e].Write(b)
	return err
}
