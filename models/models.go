//verif:target zzverif/models/models.go

// Package models holds Go-source models of library functions. They are compiled
// to SSA together with the code under test and substituted by name
// (//verif:model <real function>); //verif:atomic marks a model that executes
// as one atomic visible step of the scheduler.
package models

import (
	"github.com/ThreeDotsLabs/watermill/zzverif/vrt"
)

// RuntimeError is the dynamic type of run-time panics raised by the engine
// (nil dereference, index out of range, ...) and of opaque library errors.
type RuntimeError string

func (e RuntimeError) Error() string { return string(e) }
func (e RuntimeError) RuntimeError() {}

var _ = vrt.Symbolic

// IsPointer models cqrs.isPointer (reflection): v must be a non-nil pointer.
//
//verif:model github.com/ThreeDotsLabs/watermill/components/cqrs.isPointer
func IsPointer(v any) error {
	if vrt.IsNonNilPointer(v) {
		return nil
	}
	return RuntimeError("non-pointer command/event")
}

// RType stands for a reflect.Type value (reflect.TypeOf is an engine intrinsic): the name of the dynamic type.
// Comparable with ==; only the methods below exist.
type RType string

func (r RType) String() string { return string(r) }
