//verif:target zzverif/models/prometheus.go

package models

import (
	"sort"

	"github.com/prometheus/client_golang/prometheus"
	dto "github.com/prometheus/client_model/go"
)

// Model of the part of client_golang the metrics decorators use: collectors are identity tokens,
// Register remembers fully-qualified names (AlreadyRegisteredError on a duplicate), With(labels)
// returns an observer/counter that appends (collector, sorted label snapshot) to a log the harness reads.
// Contract assumed: Prometheus counts what it is told.

type promVec struct {
	name   string
	labels []string
}

type promEvent struct {
	name   string
	labels string // "k=v,k=v" sorted by key
}

var (
	promVecs   = map[any]*promVec{}
	promLog    []promEvent
	promByName = map[*prometheus.Registry]map[string]prometheus.Collector{}
)

func fqName(ns, sub, name string) string {
	out := name
	if sub != "" {
		out = sub + "_" + out
	}
	if ns != "" {
		out = ns + "_" + out
	}
	return out
}

//verif:model github.com/prometheus/client_golang/prometheus.NewHistogramVec
//verif:atomic
func NewHistogramVec(opts prometheus.HistogramOpts, labelNames []string) *prometheus.HistogramVec {
	v := &prometheus.HistogramVec{}
	promVecs[v] = &promVec{name: fqName(opts.Namespace, opts.Subsystem, opts.Name), labels: labelNames}
	return v
}

//verif:model github.com/prometheus/client_golang/prometheus.NewCounterVec
//verif:atomic
func NewCounterVec(opts prometheus.CounterOpts, labelNames []string) *prometheus.CounterVec {
	v := &prometheus.CounterVec{}
	promVecs[v] = &promVec{name: fqName(opts.Namespace, opts.Subsystem, opts.Name), labels: labelNames}
	return v
}

//verif:model github.com/prometheus/client_golang/prometheus.NewRegistry
func NewRegistry() *prometheus.Registry { return &prometheus.Registry{} }

//verif:model (*github.com/prometheus/client_golang/prometheus.Registry).Register
//verif:atomic
func RegistryRegister(r *prometheus.Registry, c prometheus.Collector) error {
	info := promVecs[c]
	if info == nil {
		return RuntimeError("unknown collector")
	}
	m := promByName[r]
	if m == nil {
		m = map[string]prometheus.Collector{}
		promByName[r] = m
	}
	if old, ok := m[info.name]; ok {
		return prometheus.AlreadyRegisteredError{ExistingCollector: old, NewCollector: c}
	}
	m[info.name] = c
	return nil
}

func labelString(l prometheus.Labels) string {
	keys := make([]string, 0, len(l))
	for k := range l {
		keys = append(keys, k)
	}
	sort.Strings(keys)
	out := ""
	for i, k := range keys {
		if i > 0 {
			out += ","
		}
		out += k + "=" + l[k]
	}
	return out
}

type promObserver struct{ ev promEvent }

//verif:atomic
func promRecord(ev promEvent) { promLog = append(promLog, ev) }

func (o promObserver) Observe(float64) { promRecord(o.ev) }

type promCounter struct{ ev promEvent }

func (c promCounter) Inc()                         { promRecord(c.ev) }
func (c promCounter) Add(float64)                  { promRecord(c.ev) }
func (c promCounter) Desc() *prometheus.Desc       { return nil }
func (c promCounter) Write(*dto.Metric) error      { return nil }
func (c promCounter) Describe(chan<- *prometheus.Desc) {}
func (c promCounter) Collect(chan<- prometheus.Metric) {}

//verif:model (*github.com/prometheus/client_golang/prometheus.HistogramVec).With
func HistogramVecWith(v *prometheus.HistogramVec, l prometheus.Labels) prometheus.Observer {
	return promObserver{promEvent{promVecName(v), labelString(l)}}
}

//verif:model (*github.com/prometheus/client_golang/prometheus.CounterVec).With
func CounterVecWith(v *prometheus.CounterVec, l prometheus.Labels) prometheus.Counter {
	return promCounter{promEvent{promVecName(v), labelString(l)}}
}

//verif:atomic
func promVecName(v any) string {
	if info := promVecs[v]; info != nil {
		return info.name
	}
	return "?"
}

// PromCount returns how many observations / increments metric `name` received with exactly these labels.
//
//verif:atomic
func PromCount(r *prometheus.Registry, name string, labels map[string]string) int {
	want := labelString(labels)
	n := 0
	for _, ev := range promLog {
		if ev.name == name && ev.labels == want {
			n++
		}
	}
	return n
}

// PromTotal returns the number of observations / increments of metric `name` over all label values.
//
//verif:atomic
func PromTotal(r *prometheus.Registry, name string) int {
	n := 0
	for _, ev := range promLog {
		if ev.name == name {
			n++
		}
	}
	return n
}
