//verif:target zzverif/models/rand.go

package models

import "github.com/ThreeDotsLabs/watermill/zzverif/vrt"

// RandConst makes math/rand.Float64 return 0.5 (harnesses whose subject is not the randomisation).
var RandConst bool

//verif:model math/rand.Float64
func RandFloat64() float64 {
	if RandConst {
		return 0.5
	}
	return vrt.FreshF64(0, 1)
}
