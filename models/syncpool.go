//verif:target zzverif/models/syncpool.go

package models

import "sync"

// sync.Pool: Get returns the most recently Put object if there is one (the case that exposes aliasing between
// users of pooled objects), otherwise New(). A real pool may also drop objects; that only removes behaviours.

var pools = map[*sync.Pool][]any{}

//verif:atomic
func poolPop(p *sync.Pool) (any, bool) {
	l := pools[p]
	if len(l) == 0 {
		return nil, false
	}
	x := l[len(l)-1]
	pools[p] = l[:len(l)-1]
	return x, true
}

//verif:atomic
func poolPush(p *sync.Pool, x any) { pools[p] = append(pools[p], x) }

//verif:model (*sync.Pool).Get
func PoolGet(p *sync.Pool) any {
	if x, ok := poolPop(p); ok {
		return x
	}
	if p.New != nil {
		return p.New()
	}
	return nil
}

//verif:model (*sync.Pool).Put
func PoolPut(p *sync.Pool, x any) {
	if x == nil {
		return
	}
	poolPush(p, x)
}
