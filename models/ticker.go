//verif:target zzverif/models/ticker.go

package models

import "time"

// TickerTicks bounds the number of ticks a modelled ticker delivers; TicksSent counts them.
var (
	TickerTicks = 3
	TicksSent   int
	// TickerPeriodic selects the second ticker model (for harnesses run under the timed semantics): a tick every d,
	// dropped when the previous one has not been taken (the channel holds one tick), as the runtime does.
	TickerPeriodic bool
)

//verif:atomic
func countTick() { TicksSent++ }

//verif:atomic
func ReadTicksSent() int { return TicksSent }

// NewTicker models time.NewTicker: a goroutine delivers at most TickerTicks ticks, each at an
// arbitrary moment (the interval itself is not modelled).
//
//verif:model time.NewTicker
func NewTicker(d time.Duration) *time.Ticker {
	if d <= 0 {
		panic("non-positive interval for NewTicker")
	}
	c := make(chan time.Time, 1)
	n := TickerTicks
	if TickerPeriodic {
		go func() {
			for i := 0; i < n; i++ {
				time.Sleep(d)
				select {
				case c <- time.Now():
					countTick()
				default: // the runtime drops a tick nobody has taken the previous one of
				}
			}
		}()
		return &time.Ticker{C: c}
	}
	go func() {
		for i := 0; i < n; i++ {
			countTick()
			c <- time.Time{}
		}
	}()
	return &time.Ticker{C: c}
}

//verif:model (*time.Ticker).Stop
func TickerStop(t *time.Ticker) {}
