//verif:target zzverif/models/time.go

package models

import "time"

// timerChan is an engine intrinsic: a channel holding one value from the start (the timer may fire at
// any moment); receiving from it advances the symbolic clock to at least now+d.
func timerChan(d time.Duration) chan time.Time { return nil }

// After models time.After: the scheduler explores "fires before / after everything else" through
// the interleavings of the receiving select; elapsed time is tracked on the symbolic clock.
//
//verif:model time.After
func After(d time.Duration) <-chan time.Time { return timerChan(d) }

//verif:model time.Since
func Since(t time.Time) time.Duration { return time.Now().Sub(t) }

//verif:model time.Until
func Until(t time.Time) time.Duration { return t.Sub(time.Now()) }
