//verif:target zzverif/models/time.go

package models

import (
	"time"

	"github.com/ThreeDotsLabs/watermill/zzverif/vrt"
)

// timerChan is an engine intrinsic: a channel holding one value from the start (the timer may fire at
// any moment); receiving from it advances the symbolic clock to at least now+d.
func timerChan(d time.Duration) chan time.Time { return nil }

// After models time.After: the scheduler explores "fires before / after everything else" through
// the interleavings of the receiving select; elapsed time is tracked on the symbolic clock.
//
//verif:model time.After
func After(d time.Duration) <-chan time.Time { return timerChan(d) }

// sleepNow is an engine intrinsic: the clock moves on by at least d, without a scheduling point.
func sleepNow(d time.Duration) {}

// Sleep models time.Sleep. Timed runs (gosym --timed) wait for a timer like everybody else, so that timers due
// earlier fire first; otherwise the clock simply moves on.
//
//verif:model time.Sleep
func Sleep(d time.Duration) {
	if vrt.Timed() {
		if d > 0 {
			<-timerChan(d)
		}
		return
	}
	sleepNow(d)
}

//verif:model time.Since
func Since(t time.Time) time.Duration { return time.Now().Sub(t) }

//verif:model time.Until
func Until(t time.Time) time.Duration { return t.Sub(time.Now()) }

// ---- timers with a callback / re-armable timers (time.AfterFunc, time.NewTimer, Stop, Reset)

type timerCtl struct {
	stop chan struct{}
	done bool
	f    func()
}

var timerCtls = map[*time.Timer]*timerCtl{}

//verif:atomic
func timerCtlOf(t *time.Timer) *timerCtl { return timerCtls[t] }

//verif:atomic
func timerSetCtl(t *time.Timer, c *timerCtl) { timerCtls[t] = c }

// timerClaim: the timer fires (true) unless it was stopped first
//
//verif:atomic
func timerClaim(c *timerCtl) bool {
	if c.done {
		return false
	}
	c.done = true
	return true
}

// timerCancel: stops the timer; true if it had not fired or been stopped yet
//
//verif:atomic
func timerCancel(c *timerCtl) bool {
	if c.done {
		return false
	}
	c.done = true
	close(c.stop)
	return true
}

func timerArm(t *time.Timer, d time.Duration, f func()) {
	c := &timerCtl{stop: make(chan struct{}), f: f}
	timerSetCtl(t, c)
	go func() {
		select {
		case <-timerChan(d):
			if timerClaim(c) {
				f()
			}
		case <-c.stop:
		}
	}()
}

//verif:model time.NewTimer
func NewTimer(d time.Duration) *time.Timer { return &time.Timer{C: timerChan(d)} }

//verif:model time.AfterFunc
func AfterFunc(d time.Duration, f func()) *time.Timer {
	t := &time.Timer{}
	timerArm(t, d, f)
	return t
}

//verif:model (*time.Timer).Stop
func TimerStopModel(t *time.Timer) bool {
	c := timerCtlOf(t)
	if c == nil {
		return true // a channel timer: nothing runs on its own, an unread tick is simply never read
	}
	return timerCancel(c)
}

//verif:model (*time.Timer).Reset
func TimerResetModel(t *time.Timer, d time.Duration) bool {
	c := timerCtlOf(t)
	if c == nil {
		t.C = timerChan(d)
		return true
	}
	active := timerCancel(c)
	timerArm(t, d, c.f)
	return active
}
