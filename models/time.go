//verif:target zzverif/models/time.go

package models

import (
	"time"

	"github.com/ThreeDotsLabs/watermill/zzverif/vrt"
)

// timerChan is an engine intrinsic: a channel holding one value from the start (the timer may fire at
// any moment); receiving from it advances the symbolic clock to at least now+d.
func timerChan(d time.Duration) chan time.Time { return nil }

// After models time.After: the scheduler explores "fires before / after everything else" through
// the interleavings of the receiving select; elapsed time is tracked on the symbolic clock.
//
//verif:model time.After
func After(d time.Duration) <-chan time.Time { return timerChan(d) }

// sleepNow is an engine intrinsic: the clock moves on by at least d, without a scheduling point.
func sleepNow(d time.Duration) {}

// Sleep models time.Sleep. Timed runs (gosym --timed) wait for a timer like everybody else, so that timers due
// earlier fire first; otherwise the clock simply moves on.
//
//verif:model time.Sleep
func Sleep(d time.Duration) {
	if vrt.Timed() {
		if d > 0 {
			<-timerChan(d)
		}
		return
	}
	sleepNow(d)
}

//verif:model time.Since
func Since(t time.Time) time.Duration { return time.Now().Sub(t) }

//verif:model time.Until
func Until(t time.Time) time.Duration { return t.Sub(time.Now()) }
