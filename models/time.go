//verif:target zzverif/models/time.go

package models

import "time"

// After models time.After in untimed mode: the timer may fire at any moment, so the
// channel is ready from the start; the scheduler explores "fires before / after
// everything else" through the interleavings of the receiving select.
//
//verif:model time.After
func After(d time.Duration) <-chan time.Time {
	ch := make(chan time.Time, 1)
	ch <- time.Time{}
	return ch
}

//verif:model time.Since
func Since(t time.Time) time.Duration { return time.Now().Sub(t) }

//verif:model time.Until
func Until(t time.Time) time.Duration { return t.Sub(time.Now()) }
