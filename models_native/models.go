//verif:target zzverif/models/models.go

// Package models (native build): only the switches harnesses set; the library models themselves are
// not used natively (the real library code runs).
package models

// RandConst makes math/rand.Float64 return 0.5 in the symbolic run (concrete back-off arithmetic).
var RandConst bool

// TickerTicks / ReadTicksSent exist natively only so that harnesses compile; the real ticker runs.
var TickerTicks = 3

// TickerPeriodic selects the periodic ticker model of the timed runs; natively the real ticker runs.
var TickerPeriodic bool

func ReadTicksSent() int { return 1 << 30 }
