//verif:target zzverif/models/prometheus.go

package models

import (
	"github.com/prometheus/client_golang/prometheus"
	dto "github.com/prometheus/client_model/go"
)

func metricCount(m *dto.Metric) int {
	if m.Counter != nil {
		return int(m.Counter.GetValue())
	}
	if m.Histogram != nil {
		return int(m.Histogram.GetSampleCount())
	}
	return 0
}

// PromCount (native): read the real registry through Gather().
func PromCount(r *prometheus.Registry, name string, labels map[string]string) int {
	mfs, err := r.Gather()
	if err != nil {
		return -1
	}
	n := 0
	for _, mf := range mfs {
		if mf.GetName() != name {
			continue
		}
		for _, m := range mf.Metric {
			if len(m.Label) != len(labels) {
				continue
			}
			ok := true
			for _, lp := range m.Label {
				if v, has := labels[lp.GetName()]; !has || v != lp.GetValue() {
					ok = false
				}
			}
			if ok {
				n += metricCount(m)
			}
		}
	}
	return n
}

func PromTotal(r *prometheus.Registry, name string) int {
	mfs, err := r.Gather()
	if err != nil {
		return -1
	}
	n := 0
	for _, mf := range mfs {
		if mf.GetName() == name {
			for _, m := range mf.Metric {
				n += metricCount(m)
			}
		}
	}
	return n
}
