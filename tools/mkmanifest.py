#!/usr/bin/env python3
"""Regenerates /verif/MANIFEST.json from harness/*/spec.json (claimed properties) and tools/manifest_base.json."""
import json, os, glob
V = os.path.dirname(os.path.dirname(os.path.abspath(__file__)))
base = json.load(open(os.path.join(V, "tools", "manifest_base.json")))
props = [json.loads(l)["id"] for l in open(os.path.join(V, "properties.jsonl"))]
checks = []
claimed = set()
for pid in props:
    sp = os.path.join(V, "harness", pid, "spec.json")
    if not os.path.exists(sp):
        continue
    spec = json.load(open(sp))
    if spec.get("claimed", True) is False:
        continue
    claimed.add(pid)
    hs = spec["harnesses"]
    q = [h for h in hs if "quick" in h.get("tiers", ["quick", "thorough"])]
    t = [h for h in hs if "thorough" in h.get("tiers", ["quick", "thorough"])]
    text = spec.get("level_text") or ("bounded symbolic model checking of the real code: " + "; ".join(
        "%s (%s)" % (h["name"], h.get("describes", "")) for h in q))
    checks.append({
        "property_id": pid,
        "quick_cmd": "./check %s --tier quick" % pid,
        "thorough_cmd": "./check %s --tier thorough" % pid,
        "evidence_file": "/verif/evidence/%s.json" % pid,
        "replay_cmd_template": "./check %s --replay {path}" % pid,
        "engine": "gosym",
        "level_claimed": {"category": "model_checking", "text": text[:3000], "design_ref": "DESIGN.md §4 " + pid},
        "level_note": spec.get("level_note", "trusted base: go/ssa front end (x/tools v0.29.0), the gosym interpreter and its models of sync/channels/context/fmt/time (validated per run by native witness replay), z3 4.8.12; bounds and everything outside them are listed in the evidence file"),
        "technique": spec.get("technique", "solver-based checking: SSA symbolic execution of the real functions, assertions discharged by z3 over all inputs; schedules explored exhaustively over scheduler configurations with state matching"),
    })
na = []
reasons = base.get("not_applicable_reasons", {})
for pid in props:
    if pid not in claimed:
        na.append({"property_id": pid, "reason": reasons.get(pid, "not yet covered by a registered check in this revision")})
m = {
    "version": 1,
    "setup_cmd": base["setup_cmd"],
    "hooks": base["hooks"],
    "engines": base["engines"],
    "checks": checks,
    "notes": base.get("notes", ""),
    "not_applicable": na,
}
for e in m["engines"]:
    e["serves_properties"] = sorted(claimed)
json.dump(m, open(os.path.join(V, "MANIFEST.json"), "w"), indent=1)
print("claimed:", sorted(claimed))
print("not applicable:", [x["property_id"] for x in na])
