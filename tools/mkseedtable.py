#!/usr/bin/env python3
"""Regenerates the table of DESIGN.md section I.9 from seeded/*/meta.json."""
import json, glob, re, os
rows = []
n = caught = retired = 0
for d in sorted(glob.glob("/verif/seeded/C??-m?")):
    m = json.load(open(d + "/meta.json"))
    if not m.get("ok"):
        continue
    n += 1
    if m.get("retired_at"):
        retired += 1
        caught += 1
        by = "; ".join("%s: %s" % (x["check"], ", ".join(h.replace("Harness", "") for h in x["harnesses"][:4])) for x in m.get("detected_by", []))
        rows.append("| %s | %s | %s — *retired at %s*: %s |" % (os.path.basename(d), m.get("needs_to_manifest", "?"), by, m["retired_at"], m["retired_reason"]))
        continue
    if m.get("detected"):
        caught += 1
        by = "; ".join("%s: %s" % (x["check"], ", ".join(h.replace("Harness", "") for h in x["harnesses"][:4]) + (" …" if len(x["harnesses"]) > 4 else "")) for x in m["detected_by"])
    else:
        by = "**missed** — " + m.get("why_missed", "?")
    rows.append("| %s | %s | %s |" % (os.path.basename(d), m.get("needs_to_manifest", "?"), by))
table = "| change | needs, in order to manifest | caught by |\n|--------|-----------------------------|-----------|\n" + "\n".join(rows) + "\n"
p = "/verif/DESIGN.md"
s = open(p).read()
s2 = re.sub(r"\| change \| needs, in order to manifest \| caught by \|\n(\|.*\n)+", lambda _: table, s, count=1)
open(p, "w").write(s2)
print(n, "changes,", caught, "caught,", retired, "retired")
