#!/usr/bin/env python3
"""record_mutant.py <prop> <mN> <needs_to_manifest> [check-prop ...]
Reads /tmp/mut_<prop>_<mN>_<check>.log written by tools/run_mutant.sh and records in seeded/<prop>-<mN>/meta.json
which check caught the change (or that none did)."""
import json, re, sys, os
prop, mut, needs = sys.argv[1], sys.argv[2], sys.argv[3]
checks = sys.argv[4:] or [prop]
d = "/verif/seeded/%s-%s" % (prop, mut)
meta = json.load(open(d + "/meta.json"))
det = []
for cp in checks:
    log = open("/tmp/mut_%s_%s_%s.log" % (prop, mut, cp)).read()
    vs = []
    for m in re.finditer(r"^violation in (\S+): (\S+) ['\"](.*)['\"] \(native replay: ([^)]*(?:\([^)]*\))?)\)", log, re.M):
        vs.append({"harness": m.group(1), "kind": m.group(2), "label": re.sub(r"/tmp/wt_C\d+/", "", m.group(3))[:240], "native": m.group(4)})
    if vs:
        det.append({"check": cp, "harnesses": sorted({v["harness"] for v in vs}), "violations": vs[:6]})
meta["detected_by"] = det
meta["detected"] = bool(det)
if det:
    meta.pop("why_missed", None)
meta["breaks_property"] = prop
meta["needs_to_manifest"] = needs
meta["what_i_ran"] = ["tools/validate_seeded.py %s %s (demo without change; git apply; go build ./...; go test ./message/... ./pubsub/... ./components/... .; demo with change)" % (prop, mut)] + \
    ["tools/run_mutant.sh %s %s %s (VERIF_REPO=<worktree with the change> ./check %s)" % (prop, mut, cp, cp) for cp in checks]
json.dump(meta, open(d + "/meta.json", "w"), indent=1)
print(prop, mut, "detected" if det else "MISSED", [(x["check"], x["harnesses"]) for x in det])
