#!/bin/sh
# rerun_seeded.sh <prop>...  -- re-runs every seeded change of the given properties against the current checks
# (each in the property's scratch worktree /tmp/wt_<prop>, which must be at /repo's HEAD) and records the outcome.
cd /verif
for P in "$@"; do
  for d in seeded/$P-m?; do
    M=${d##*-}
    if grep -q '"retired_at"' $d/meta.json; then echo "$P $M retired"; continue; fi
    cp $d/patch.diff /tmp/wt_$P/_mutants/$M.diff
    CHECKS=$(python3 -c "
import json;m=json.load(open('$d/meta.json'));cs=[x['check'] for x in m.get('detected_by',[])] or ['$P']
extra={'C08-m4':['C02'],'C13-m4':['C08'],'C11-m2':['C04'],'C17-m4':['C02'],'C02-m6':['C03'],'C13-m5':['C08'],'C13-m6':['C08'],'C10-m7':['C07','C02'],'C10-m8':['C06'],'C13-m8':['C16'],'C17-m7':['C16'],'C18-m8':['C15'],'C02-ma':['C20'],'C08-ma':['C09'],'C20-m9':['C09'],'C12-ma':['C19'],'C13-m9':['C08'],'C13-ma':['C02'],'C17-m9':['C16'],'C18-ma':['C05','C07'],'C10-m9':['C07'],'C06-ma':['C10'],'C02-mb':['C09'],'C10-mc':['C05'],'C08-mb':['C20'],'C13-mb':['C09'],'C13-mc':['C10'],'C17-mb':['C16']}.get('$P-$M',[])
print(' '.join(dict.fromkeys(['$P']+cs+extra)))")
    for C in $CHECKS; do tools/run_mutant.sh $P $M $C; done
    N=$(python3 -c "import json;print(json.load(open('$d/meta.json')).get('needs_to_manifest','?'))")
    tools/record_mutant.py $P $M "$N" $CHECKS
  done
done
