#!/bin/sh
# runs every registered quick check against /repo and reports exit codes
cd /verif
TIER=${1:-quick}
for p in $(python3 -c "import json;print(' '.join(c['property_id'] for c in json.load(open('MANIFEST.json'))['checks']))"); do
  s=$(date +%s)
  VERIF_SEED=1 ./check $p --tier $TIER > /tmp/runall_$p.log 2>&1
  rc=$?
  echo "$p exit=$rc $(( $(date +%s) - s ))s $(grep -c '^KNOWN-FINDING' /tmp/runall_$p.log) known $(grep -c '^VIOLATION' /tmp/runall_$p.log) violations $(grep -c '^INCONCLUSIVE' /tmp/runall_$p.log) inconclusive"
done
