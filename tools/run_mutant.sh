#!/bin/sh
# usage: run_mutant.sh <prop> <mN> [check-prop]   -- applies /tmp/wt_<prop>/_mutants/<mN>.diff in that worktree and runs the check there
P=$1; M=$2; CP=${3:-$1}
WT=${WT_PREFIX:-/tmp/wt_}$P
git -C $WT checkout -q -- . && git -C $WT apply $WT/_mutants/$M.diff || { echo "$P $M APPLY-FAILED"; exit 2; }
OUT=/tmp/mut_${P}_${M}_${CP}.log
VERIF_REPO=$WT VERIF_EVIDENCE_DIR=/tmp/mut_evidence VERIF_REPLAY_DIR=/tmp/mut_replays timeout 1500 /verif/check $CP > $OUT 2>&1
RC=$?
git -C $WT checkout -q -- .
echo "$P $M check=$CP exit=$RC $(grep -c '^VIOLATION' $OUT) violations; $(grep -E '^VIOLATION|^INCONCLUSIVE' $OUT | head -2 | cut -c1-160 | tr '\n' '|')"
