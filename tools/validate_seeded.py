#!/usr/bin/env python3
"""validate_seeded.py <prop> <mN>: confirms a sub-agent's change in its scratch worktree (/tmp/wt_<prop>, at /repo's HEAD):
 the demo passes without the change; with it the tree builds, the existing tests of the affected packages pass and the demo
 fails. Writes /verif/seeded/<prop>-<mN>/{patch.diff,demo_test.go,notes.md,meta.json}."""
import json, os, re, shutil, subprocess, sys
prop, m = sys.argv[1], sys.argv[2]
wt = os.environ.get("WT_PREFIX", "/tmp/wt_") + prop
mut = os.path.join(wt, "_mutants")
env = dict(os.environ, GOFLAGS="-mod=mod", GOPROXY="off", GOSUMDB="off", GOTOOLCHAIN="local")
def sh(cmd, timeout=900):
    try:
        r = subprocess.run(cmd, shell=True, cwd=wt, env=env, capture_output=True, text=True, timeout=timeout)
        return r.returncode, (r.stdout + r.stderr)[-3000:]
    except subprocess.TimeoutExpired:
        return 124, "TIMEOUT"
demo_src = os.path.join(mut, m + "_demo_test.go")
head = open(demo_src).read()[:1500]
mt = re.search(r"go test [^\n]*?(\./\S+?)/?\s*$", head, re.M)
cmdm = re.search(r"(go test [^\n]*)", head)
pkg = mt.group(1).rstrip("/")
demo_cmd = cmdm.group(1).strip()
if "-timeout" not in demo_cmd:
    demo_cmd = demo_cmd.replace("go test", "go test -timeout 300s", 1)
dst = os.path.join(wt, pkg, "zz_%s_demo_test.go" % m)
sh("git checkout -q -- .")
shutil.copy(demo_src, dst)
res = {}
rc, out = sh(demo_cmd); res["demo_without_change"] = "pass" if rc == 0 else "FAIL"; res["demo_without_tail"] = out[-400:]
rc, out = sh("git apply %s" % os.path.join(mut, m + ".diff")); res["applies"] = rc == 0
files = subprocess.run("git diff --name-only", shell=True, cwd=wt, capture_output=True, text=True).stdout.split()
rc, out = sh("go build ./..."); res["builds"] = rc == 0
pk = "./message/... ./pubsub/... ./components/... ."
os.remove(dst)
rc, out = sh("go test -count=1 -timeout 600s %s 2>&1 | grep -v '^ok\\|no test files'" % pk, 1500)
res["existing_tests"] = "pass" if out.strip() == "" else "output: " + out[-600:]
shutil.copy(demo_src, dst)
rc, out = sh(demo_cmd); res["demo_with_change"] = "fail" if rc != 0 else "PASSES(unexpected)"; res["demo_with_tail"] = out[-600:]
os.remove(dst)
sh("git checkout -q -- .")
od = "/verif/seeded/%s-%s" % (prop, m)
os.makedirs(od, exist_ok=True)
shutil.copy(os.path.join(mut, m + ".diff"), os.path.join(od, "patch.diff"))
shutil.copy(demo_src, os.path.join(od, "demo_test.go"))
if os.path.exists(os.path.join(mut, "NOTES.md")):
    shutil.copy(os.path.join(mut, "NOTES.md"), os.path.join(od, "notes.md"))
meta = {"property": prop, "mutant": m, "files_changed": files, "demo_package": pkg, "demo_command": demo_cmd,
        "validated_at_repo_head": subprocess.run("git rev-parse HEAD", shell=True, cwd=wt, capture_output=True, text=True).stdout.strip(),
        "validation": res,
        "ok": bool(res["applies"] and res["builds"] and res["demo_without_change"] == "pass" and res["demo_with_change"] == "fail" and res["existing_tests"] == "pass")}
json.dump(meta, open(os.path.join(od, "meta.json"), "w"), indent=1)
print(prop, m, "ok" if meta["ok"] else "NOT-OK", {k: v for k, v in res.items() if not k.endswith("tail")})
