//verif:target zzverif/vrt/common.go

// Package vrt is the harness runtime: arbitrary ("nondet") inputs, assumptions,
// assertions and scheduling hints. The primitives are intercepted by the
// symbolic engine; natively they read the solver's model from the replay file.
package vrt

import (
	"strconv"
	"strings"
)

// Bytes returns nil, an empty slice or 1..maxLen arbitrary bytes.
func Bytes(label string, maxLen int) []byte {
	n := Int(label+".len", -1, maxLen)
	if n < 0 {
		return nil
	}
	b := make([]byte, n)
	for i := range b {
		b[i] = Byte(label + "." + strconv.Itoa(i))
	}
	return b
}

// Unreachable fails when executed.
func Unreachable(label string) { Assert(false, label) }

// Closed reports whether a channel of empty structs is closed, without blocking.
func Closed(ch <-chan struct{}) bool {
	return IsClosed(ch)
}

// Contains reports whether s contains sub.
func Contains(s, sub string) bool { return strings.Contains(s, sub) }
