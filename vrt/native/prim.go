//verif:target zzverif/vrt/prim.go

package vrt

import (
	"encoding/json"
	"fmt"
	"os"
	"reflect"
	"runtime"
	"strings"
	"sync"
	"testing"
	"time"
)

// Native implementation of the harness runtime: inputs come from the replay
// file named by VERIF_REPLAY (the solver's model), assertions fail the test.

type replayFile struct {
	Values map[string]any `json:"values"`
}

var (
	mu       sync.Mutex
	loaded   bool
	values   map[string]any
	failures []string
	quiesce  []func()
	curT     *testing.T
)

func load() {
	if loaded {
		return
	}
	loaded = true
	values = map[string]any{}
	p := os.Getenv("VERIF_REPLAY")
	if p == "" {
		return
	}
	b, err := os.ReadFile(p)
	if err != nil {
		panic("vrt: cannot read replay file: " + err.Error())
	}
	var rf replayFile
	if err := json.Unmarshal(b, &rf); err != nil {
		panic("vrt: bad replay file: " + err.Error())
	}
	values = rf.Values
}

func lookup(label string) (any, bool) {
	mu.Lock()
	defer mu.Unlock()
	load()
	v, ok := values[label]
	return v, ok
}

func Bool(label string) bool {
	v, ok := lookup(label)
	if !ok {
		return false
	}
	b, _ := v.(bool)
	return b
}

func Int(label string, lo, hi int) int {
	v, ok := lookup(label)
	if !ok {
		return lo
	}
	f, _ := v.(float64)
	return int(f)
}

func Byte(label string) byte {
	v, ok := lookup(label)
	if !ok {
		return 0
	}
	f, _ := v.(float64)
	return byte(f)
}

func Str(label string) string {
	v, ok := lookup(label)
	if !ok {
		return ""
	}
	s, _ := v.(string)
	return s
}

func F64(label string, lo, hi float64) float64 {
	v, ok := lookup(label)
	if !ok {
		return lo
	}
	f, _ := v.(float64)
	return f
}

func Assume(cond bool) {
	if !cond {
		fmt.Println("VRT-ASSUME-FAILED")
		runtime.Goexit()
	}
}

func Assert(cond bool, label string) {
	if cond {
		return
	}
	mu.Lock()
	failures = append(failures, label)
	mu.Unlock()
	fmt.Printf("VRT-ASSERT-FAILED: %s\n", label)
}

func Observe(label string, v any) {
	fmt.Printf("VRT-OBSERVE %s=%v\n", label, v)
}

func Tag(name string, v any)  { fmt.Printf("VRT-TAG %s=%v\n", name, v) }
func Yield()                  { runtime.Gosched() }
func MustFinish()             {}
func MayBlock()               {}
func Symbolic() bool          { return false }
func TypeName(v any) string   { return fmt.Sprintf("%T", v) }
func Opaque(v any) string     { return fmt.Sprint(v) }

func AtQuiescence(f func()) {
	mu.Lock()
	quiesce = append(quiesce, f)
	mu.Unlock()
}

func IsClosed(ch any) bool {
	v := reflect.ValueOf(ch)
	if !v.IsValid() || v.IsNil() {
		return false
	}
	chosen, _, ok := reflect.Select([]reflect.SelectCase{
		{Dir: reflect.SelectRecv, Chan: v},
		{Dir: reflect.SelectDefault},
	})
	return chosen == 0 && !ok
}

func ChanLen(ch any) int {
	v := reflect.ValueOf(ch)
	if !v.IsValid() || v.IsNil() {
		return 0
	}
	return v.Len()
}

func AssignIfType(err error, target any) bool {
	tt := reflect.TypeOf(target).Elem()
	if reflect.TypeOf(err).AssignableTo(tt) {
		reflect.ValueOf(target).Elem().Set(reflect.ValueOf(err))
		return true
	}
	return false
}

// Live counts goroutines (other than the caller) whose stack mentions pattern.
func Live(pattern string) int {
	buf := make([]byte, 1<<20)
	n := runtime.Stack(buf, true)
	gs := strings.Split(string(buf[:n]), "\n\n")
	c := 0
	for i, g := range gs {
		if i == 0 {
			continue // the caller
		}
		if strings.Contains(g, pattern) {
			c++
		}
	}
	return c
}

// Run executes a harness natively under the replay file and reports assertion failures.
func Run(t *testing.T, harness func()) {
	curT = t
	done := make(chan struct{})
	go func() {
		defer close(done)
		harness()
	}()
	select {
	case <-done:
	case <-time.After(10 * time.Second):
		fmt.Println("VRT-HARNESS-BLOCKED")
		gateReport()
		buf := make([]byte, 1<<20)
		n := runtime.Stack(buf, true)
		fmt.Printf("%s\n", buf[:n])
		t.Fatalf("harness did not finish")
	}
	// quiescence: let the goroutines settle, then evaluate the callbacks
	mu.Lock()
	cbs := quiesce
	mu.Unlock()
	if len(cbs) > 0 {
		time.Sleep(200 * time.Millisecond)
		for _, f := range cbs {
			f()
		}
	}
	mu.Lock()
	defer mu.Unlock()
	if len(failures) > 0 {
		mu.Unlock()
		gateReport()
		mu.Lock()
		t.Fatalf("%d assertion(s) failed: %v", len(failures), failures)
	}
	gateReport()
	fmt.Println("VRT-HARNESS-DONE")
}

// MutexLocked reports whether m is held right now.
func MutexLocked(m *sync.Mutex) bool {
	if m.TryLock() {
		m.Unlock()
		return false
	}
	return true
}

// FreshF64 is only used by library models (never natively).
func FreshF64(lo, hi float64) float64 { return lo }

// Advance lets an arbitrary amount of (symbolic) time pass; natively time passes by itself.
func Advance() {}

// PickStr returns a or b, as the replay file says (symbolically: an if-then-else term, no path fork).
func PickStr(label string, a, b string) string {
	if Bool(label) {
		return b
	}
	return a
}

func IsNonNilPointer(v any) bool {
	rv := reflect.ValueOf(v)
	return rv.Kind() == reflect.Ptr && !rv.IsNil()
}

// ---- schedule gating (forced replay of the solver's interleaving)
//
// The replay file lists, in order, the source positions ("gates") at which the engine fired visible
// operations. Instrumented copies of the real sources call At(pos) before those statements. At blocks
// until pos is the next expected gate; a watchdog skips a gate nobody reaches (select choices made by
// the Go runtime, merged releases), so a replay can lose synchronisation but never hangs because of it.

type gatePlan struct {
	Gates []string `json:"gates"`
}

var (
	gmu       sync.Mutex
	gcond     = sync.NewCond(&gmu)
	gates     []string
	gidx      int
	gloaded   bool
	gfollowed int
	gskipped  int
	gwaiters  int
	glast     time.Time
)

func loadGates() {
	if gloaded {
		return
	}
	gloaded = true
	p := os.Getenv("VERIF_REPLAY")
	if p == "" {
		return
	}
	b, err := os.ReadFile(p)
	if err != nil {
		return
	}
	var gp gatePlan
	if json.Unmarshal(b, &gp) == nil {
		gates = gp.Gates
	}
	glast = time.Now()
	if len(gates) > 0 {
		go func() {
			for {
				time.Sleep(20 * time.Millisecond)
				gmu.Lock()
				if gidx >= len(gates) {
					gmu.Unlock()
					return
				}
				if time.Since(glast) > 120*time.Millisecond {
					// nobody reached the expected gate: skip it
					gidx++
					gskipped++
					glast = time.Now()
					gcond.Broadcast()
				}
				gmu.Unlock()
			}
		}()
	}
}

// At is called by instrumented code before a statement that performs a visible operation.
func At(pos string) {
	gmu.Lock()
	defer gmu.Unlock()
	loadGates()
	if len(gates) == 0 {
		return
	}
	deadline := time.Now().Add(2 * time.Second)
	for gidx < len(gates) {
		if gates[gidx] == pos {
			gidx++
			gfollowed++
			glast = time.Now()
			gcond.Broadcast()
			return
		}
		// is this position expected later at all? if not, do not wait
		later := false
		for _, g := range gates[gidx:] {
			if g == pos {
				later = true
				break
			}
		}
		if !later || time.Now().After(deadline) {
			return
		}
		gwaiters++
		waitCond(60 * time.Millisecond)
		gwaiters--
	}
}

func waitCond(d time.Duration) {
	t := time.AfterFunc(d, func() { gmu.Lock(); gcond.Broadcast(); gmu.Unlock() })
	gcond.Wait()
	t.Stop()
}

func gateReport() {
	gmu.Lock()
	defer gmu.Unlock()
	if len(gates) > 0 {
		fmt.Printf("VRT-SCHEDULE gates=%d followed=%d skipped=%d\n", len(gates), gfollowed, gskipped)
	}
}

// HashSum is only used by library models (never natively).
func HashSum(kind string, data []byte) []byte { return nil }

// Reach marks an outcome as reached (the engine collects the set over all schedules).
func Reach(label string) { fmt.Printf("VRT-REACH %s\n", label) }

// Bound is a harness size parameter: the quick-tier value unless the run carries an override ("bound:<name>").
func Bound(name string, quick int) int {
	v, ok := lookup("bound:" + name)
	if !ok {
		return quick
	}
	f, _ := v.(float64)
	return int(f)
}

// Timed reports whether the run uses the engine's timed semantics (never natively: real clocks jitter).
func Timed() bool { return false }

// Inside counts goroutines (other than the caller) that are inside a function whose name contains pattern.
func Inside(pattern string) int { return Live(pattern) }
