//verif:target zzverif/vrt/prim.go

package vrt

import "sync"

// Bodies are never executed: the symbolic engine intercepts these by name.

func Bool(label string) bool                      { return false }
func Int(label string, lo, hi int) int             { return lo }
func Byte(label string) byte                       { return 0 }
func Str(label string) string                      { return "" }
func F64(label string, lo, hi float64) float64     { return lo }
func Assume(cond bool)                             {}
func Assert(cond bool, label string)               {}
func Observe(label string, v any)                  {}
func Tag(name string, v any)                       {}
func Yield()                                       {}
func MustFinish()                                  {}
func MayBlock()                                    {}
func AtQuiescence(f func())                        {}
func Live(pattern string) int                      { return 0 }
func Symbolic() bool                               { return true }
func IsClosed(ch any) bool                         { return false }
func ChanLen(ch any) int                           { return 0 }
func TypeName(v any) string                        { return "" }
func Opaque(v any) string                          { return "" }
func AssignIfType(err error, target any) bool      { return false }
func MutexLocked(m *sync.Mutex) bool               { return false }
func FreshF64(lo, hi float64) float64              { return lo }
func Advance()                                     {}
func PickStr(label string, a, b string) string     { return a }
func IsNonNilPointer(v any) bool                   { return false }
func At(pos string)                                {}
func HashSum(kind string, data []byte) []byte      { return nil }
func Reach(label string)                           {}
func Bound(name string, quick int) int              { return quick }
func Timed() bool                                  { return false }
func Inside(pattern string) int                    { return 0 }
